#!/bin/bash
# Coverage-guided campaign of the thorough tier: ./fuzz/run_fuzz.sh <ID>
# The target decodes bytes with the same decoder and judges them with the same oracle as the
# proptest-driven check.  A crash artefact is only a candidate: it is re-run through the
# production-profile oracle (vcheck --replay) and reported only if it fails there too.
set -u
VERIF="$(cd "$(dirname "${BASH_SOURCE[0]}")/.." && pwd)"
ID="$(echo "${1:-}" | tr a-z A-Z)"
case "$ID" in
  C01) RUNS=240000; MAXLEN=700 ;;
  C02) RUNS=300000; MAXLEN=700 ;;
  C03) RUNS=24000;   MAXLEN=900 ;;
  C04) RUNS=32000;   MAXLEN=900 ;;
  C05) RUNS=20000;   MAXLEN=500 ;;
  C06) RUNS=20000;   MAXLEN=700 ;;
  C07) RUNS=30000;   MAXLEN=400 ;;
  C08) RUNS=40000;   MAXLEN=400 ;;
  C09) RUNS=20000;   MAXLEN=600 ;;
  C11) RUNS=300000;  MAXLEN=260 ;;
  C12) RUNS=2000000; MAXLEN=64 ;;
  C14) RUNS=200000;  MAXLEN=2000 ;;
  C15) RUNS=400000;  MAXLEN=4000 ;;
  C17) RUNS=600000; MAXLEN=200 ;;
  *) exit 0 ;;
esac
RUNS="${VERIF_FUZZ_RUNS:-$RUNS}"
REPO="${VERIF_REPO:-/repo}"
WORK="${VERIF_WORK:-$VERIF/work}"
OUT="${VERIF_OUT:-$VERIF}"
SEED="${VERIF_SEED:-20260929}"
export FLOUNDER_SRC="$REPO/src"
export CARGO_NET_OFFLINE=true
TARGET="fz_$(echo "$ID" | tr A-Z a-z)"
JOBS=8
CORPUS="$WORK/fuzz-corpus/$ID"; ART="$WORK/fuzz-artifacts/$ID/"; LOGS="$WORK/fuzz-logs/$ID"
rm -rf "$CORPUS" "$ART" "$LOGS"; mkdir -p "$CORPUS" "$ART" "$LOGS"
cp "$VERIF/corpus/$ID/"* "$CORPUS/" 2>/dev/null
HT="$VERIF/harness/target"; [ "$REPO" != "/repo" ] && HT="$WORK/harness-target"
VC="$HT/release/vcheck"

note() { # patch the evidence file with the fuzz block
python3 - "$OUT/evidence/$ID.json" "$1" <<'PY'
import json,sys
p,blk=sys.argv[1],json.loads(sys.argv[2])
try:
    e=json.load(open(p))
except Exception:
    sys.exit(0)
e.setdefault("coverage",{})["fuzz"]=blk
json.dump(e,open(p,"w"),indent=1)
PY
}

cd "$VERIF/harness/vcheck"
if ! cargo +nightly fuzz build -s none --fuzz-dir "$VERIF/fuzz" --target-dir "$WORK/fuzz-target-nosan" "$TARGET" > "$WORK/build-fuzz.log" 2>&1; then
  echo "NOTE: fuzz build failed (see $WORK/build-fuzz.log); thorough tier continues on proptest alone"
  note '{"ran": false, "reason": "cargo +nightly fuzz build failed; proptest alone"}'
  exit 0
fi
T0=$(date +%s)
( cd "$LOGS" && cargo +nightly fuzz run -s none --fuzz-dir "$VERIF/fuzz" --target-dir "$WORK/fuzz-target-nosan" "$TARGET" "$CORPUS" -- \
    -runs=$((RUNS / JOBS)) -seed="$SEED" -len_control=0 -max_len=$MAXLEN -jobs=$JOBS -workers=$JOBS \
    -print_final_stats=1 -artifact_prefix="$ART" > "$LOGS/driver.log" 2>&1 )
T1=$(date +%s)
EXECS=$(grep -h "stat::number_of_executed_units" "$LOGS"/fuzz-*.log 2>/dev/null | awk '{s+=$2} END {print s+0}')
NCORP=$(ls "$CORPUS" | wc -l)
COV=$(grep -h "cov: " "$LOGS"/fuzz-*.log 2>/dev/null | sed -n 's/.*cov: \([0-9]*\).*/\1/p' | sort -n | tail -1)
NART=$(ls "$ART" 2>/dev/null | grep -cv "^slow-unit-")
NSLOW=$(ls "$ART" 2>/dev/null | grep -c "^slow-unit-")
REPRO=0
for a in "$ART"*; do
  [ -f "$a" ] || continue
  case "$(basename "$a")" in slow-unit-*) continue ;; esac
  R="$WORK/replay/$ID-fuzz-$(basename "$a").json"; mkdir -p "$WORK/replay"
  python3 - "$a" "$R" "$ID" <<'PY'
import sys,json
b=open(sys.argv[1],'rb').read()
json.dump({"property":sys.argv[3],"part":"fuzz","signature":"libfuzzer-artifact","bytes_hex":b.hex(),"case":{"note":"raw libFuzzer artefact"},"found_by":"cargo fuzz","seed":0},open(sys.argv[2],"w"),indent=1)
PY
  if ! VERIF_DIR="$VERIF" "$VC" "$ID" --replay "$R" > "$LOGS/replay-$(basename "$a").log" 2>&1; then
    rc=$?
    if [ $rc -eq 1 ]; then
      REPRO=1
      cat "$LOGS/replay-$(basename "$a").log"
      note "{\"ran\": true, \"runs\": $EXECS, \"corpus_units\": $NCORP, \"coverage_edges\": ${COV:-0}, \"artifacts\": $NART, \"reproduced_under_production_oracle\": true, \"wall_s\": $((T1-T0))}"
      echo "VIOLATION property=$ID replay=$R"
      exit 1
    fi
  fi
done
note "{\"ran\": true, \"engine\": \"libFuzzer via cargo-fuzz, $JOBS jobs\", \"runs\": $EXECS, \"corpus_units\": $NCORP, \"coverage_edges\": ${COV:-0}, \"artifacts\": $NART, \"artifacts_not_reproduced_under_production_oracle\": $NART, \"slow_units_(informational)\": $NSLOW, \"wall_s\": $((T1-T0))}"
echo "$ID fuzz: target=$TARGET execs=$EXECS corpus=$NCORP cov=${COV:-?} artifacts=$NART wall=$((T1-T0))s"
exit 0
