#![no_main]
//! libFuzzer target for C02: the bytes are decoded by the same decoder, and judged by the same
//! oracle, as the proptest-driven check.  A failing verdict aborts (libFuzzer saves the input);
//! the artefact is then re-run through the production-profile oracle by ./check before it is believed.
use libfuzzer_sys::fuzz_target;

fuzz_target!(|data: &[u8]| {
    vcheck::fuzz_init();
    if let Err(f) = vcheck::props::fuzz_entry("C02", data) {
        if !f.sig.starts_with("harness-") {
            panic!("C02 violated: {} {}", f.sig, f.detail);
        }
    }
});
