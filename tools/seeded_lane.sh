#!/bin/bash
# tools/seeded_lane.sh <lane-file>: runs seeded_eval.sh for every line "name srcdir ids..." of the file, serially (skips names that already have a RESULT)
while read -r name src ids; do
  [ -z "$name" ] && continue
  if grep -q "^RESULT" /verif/seeded/$name/confirm.log 2>/dev/null; then echo "skip $name"; continue; fi
  /verif/tools/seeded_eval.sh $name $src $ids
done < "$1"
