#!/bin/bash
# tools/seed_sweep.sh "<seeds>" [IDs...] — false-alarm control: the quick tier of every check on the
# unchanged tree under several VERIF_SEED values, each from a fresh process.  Any rc != 0 is printed
# with the tail of its log.  (Evidence files are rewritten by these runs; re-run the registered
# checks with the default seed afterwards before committing evidence.)
SEEDS="${1:-1 2 3}"; shift
IDS="${@:-C01 C02 C03 C04 C05 C06 C07 C08 C09 C10 C11 C12 C13 C14 C15 C16 C17}"
cd "$(dirname "$0")/.."; mkdir -p work/sweep
bad=0
for seed in $SEEDS; do
  for id in $IDS; do
    s=$(date +%s); VERIF_SEED=$seed ./check $id quick > work/sweep/$id.$seed.log 2>&1; rc=$?; e=$(date +%s)
    echo "seed=$seed $id rc=$rc $((e-s))s $(tail -1 work/sweep/$id.$seed.log | cut -c1-120)"
    if [ $rc -ne 0 ]; then bad=$((bad+1)); tail -30 work/sweep/$id.$seed.log; fi
  done
done
echo "SWEEP DONE: $bad non-zero exits"
