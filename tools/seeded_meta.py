#!/usr/bin/env python3
"""Writes seeded/<name>/meta.json from the confirmation log plus the table below, and prints the
markdown table used in DESIGN.md §6."""
import json, os, re, sys
V="/verif"
DESC = {
 "C01-castling-rights-else-if": ("C01", "change_castling_rights turned into one if/else-if chain: a rook, king or rook-promoting pawn capturing an unmoved corner rook no longer clears the victim's right; castle generation trusts the flag", "a capture of a corner rook by R/K/=R while the right is held, the victim king never moves, later an empty unattacked path: castle without a rook is generated (only on boards reached by PLAY, not from a consistent FEN)"),
 "C02-castling-rights-else-if": ("C02", "same idea found independently by a second agent: if/else-if chain in change_castling_rights", "capture of a corner rook by a king, a rook or a pawn promoting to a rook"),
 "C03-root-repetition-shortcut": ("C03", "the 'ply > 0' guard before the repetition shortcut in negamax removed: at the root the shortcut returns score 0 with no move, find_best_move overwrites its fallback, the engine prints bestmove 0000", "the position searched must already have occurred earlier in the game given by the last position command (state carried in the repetition table)"),
 "C04-ep-file-h-rejected": ("C04", "parse_en_passant_target: catch-all arm replaced by the exclusive range 'a'..'h' plus an error arm: an ep square on the h-file is rejected, Board::new falls back to the start position", "a position command whose FEN has h3 or h6 as ep square"),
 "C05-determine-bound-strict": ("C05", "determine_bound: 'score <= original_alpha' became '<': a fail-low exactly at alpha is cached as Exact; the probe returns Exact entries whatever the window", "a transposition to the same position with the same remaining depth and a lower alpha at the second visit (value changes only at depth >= 4; the false cached claim exists from depth 2)"),
 "C06-store-when-last-child-cut": ("C06", "the no-store-after-deadline guard in negamax weakened to 'moves_left > 0 && should_stop()': a node whose LAST child was cut by the deadline is cached with full depth", "the deadline must fall inside (or on entry to) the subtree of the last move of some node (7 of 749 expiry points in the agent's example)"),
 "C07-": ("C07", "", ""),
 "C08-tt-move-after-captures": ("C08", "order_moves: the table-move test moved below the capture test, so a mating capture remembered from iteration 1 is no longer searched first; another capture scored as a longer forced mate cuts off the root", "mate in one by a plain capture, another capture ranking higher by MVV-LVA that is scored as a longer forced mate, depth 2..4 (~3.5 % of random mate-in-one positions)"),
 "C09-history-window-100": ("C09", "RepetitionTable::is_repetition scans only the last 100 recorded positions ('fifty-move rule makes older entries irrelevant')", "both earlier occurrences more than ~100 plies before the root (move list of >= 105 plies with a long reversible stretch)"),
 "C10-a2-bishop-magic-collision": ("C10", "one hex digit of the a2 bishop magic changed: a destructive index collision between blocker subsets {b3,c4,d5,e6} and {c4,f7}", "bishop/queen attack from a2 with b3,c4,d5,e6 occupied and f7 empty: the slider sees through b3"),
 "C11-ep-none-equals-a-file": ("C11", "ep key table shrunk to 8 per-file keys and looked up 'branchlessly' with default file 0: no ep target hashes like an a-file target", "two positions differing only in ep target none vs a3/a6"),
 "C12-opponent-time-trouble": ("C12", "calculate_move_time halves the base time when the OPPONENT's clock is below the 5 s reserve", "opponent clock between 1 and 4999 ms and mover clock >= 5025 ms"),
 "C13-killers-survive-newgame": ("C13", "ucinewgame calls a new Searcher::reset() that re-creates the tables but forgets to clear the killer moves", "a search of depth >= 2 before ucinewgame and a search of depth >= 2 of a RELATED position after it (a stale killer must be a legal quiet move at the same ply); only node counts differ"),
 "C14-stale-mating-material": ("C14", "insufficient-material shortcut (return 0) driven by a scratch counter that is not reset between evaluations", "K v K, K+N v K or K+B v K evaluated on an evaluator that has already seen other material: fresh evaluator says 0, used one says +-270"),
 "C15-direct-mapped-table": ("C15", "HashMap replaced by a direct-mapped 2^20-slot vector indexed by the low 20 key bits with a zeroed sentinel: depth comparison crosses keys, and key 0 has a phantom entry", "two keys agreeing in their low 20 bits stored with decreasing depth; or retrieve(0) on an empty table"),
 "C16-bare-debug-crashes": ("C16", "a 'debug on|off' stub that indexes parts[1] without a length check", "an input line that trims to exactly 'debug' (process aborts: later isready unanswered, non-zero exit)"),
 "C17-castle-check-dropped": ("C17", "is_check rewritten as a 'fast' detector (moved piece attacks + discovered sliders) that forgets the rook arriving by castling", "a castling move whose rook gives check on f1/d1/f8/d8"),
}
rows=[]
for name in sorted(os.listdir(f"{V}/seeded")):
    d=f"{V}/seeded/{name}"
    log=f"{d}/confirm.log"
    if not os.path.isfile(log): continue
    t=open(log).read()
    m=re.search(r"RESULT \S+ suite=\[(.*?)\] demo_with=(\S+) demo_without=(\S+) checks=\[(.*?)\]", t)
    if not m: continue
    suite, dw, dwo, checks = m.groups()
    prop, what, needs = DESC.get(name, (name[:3], "", ""))
    res={}
    for c in checks.split():
        parts=c.split(":")
        res[parts[0]]={"rc":int(parts[1].split("=")[1]), "signature": parts[2] if len(parts)>2 else ""}
    caught=[k for k,v in res.items() if v["rc"]==1]
    base=re.search(r"== base commit (\S+)", t)
    meta={
      "name": name, "property_broken": prop, "change": what, "needs_to_manifest": needs,
      "written_by": "independent sub-agent given only the property text and a scratch worktree (nothing from /verif)",
      "base_commit": base.group(1) if base else None,
      "confirmed": {"existing_suite_with_change": suite.strip(), "demo_with_change_exit": dw, "demo_without_change_exit": dwo,
                    "how": "tools/seeded_eval.sh: scratch worktrees under /tmp/sw, patch applied with git apply, cargo nextest full suite, demonstration run on the changed and on a clean tree, then ./check <ID> quick with VERIF_REPO pointing at the changed tree; worktrees removed afterwards"},
      "checks_run_quick_tier": res, "caught_by": caught,
    }
    json.dump(meta, open(f"{d}/meta.json","w"), indent=1)
    rows.append((name, prop, ", ".join(f"{k} ({res[k]['signature']})" for k in caught) or "— missed", ", ".join(k for k in res if k not in caught) or "", suite.strip().split(":")[-1].strip() if suite else "?", f"{dw}/{dwo}"))
print("| seeded change | breaks | caught by (quick tier, signature) | ran, not caught | suite with change | demo with/without |")
print("|---|---|---|---|---|---|")
for r in rows: print("| "+" | ".join(r)+" |")
