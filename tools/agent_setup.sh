#!/bin/bash
# tools/agent_setup.sh <round> <ID> — prepares a scratch worktree and a prompt for an independent
# sub-agent that is to write breaking changes for one property.  The agent gets the property text
# and its worktree, nothing from /verif.  Prints the prompt file.
set -eu
R="$1"; ID="$2"; FLAV="${3:-}"
A=/tmp/agent/$R-$ID
rm -rf "$A/out"; mkdir -p "$A/out"
if [ ! -d "$A/wt" ]; then git -C /repo worktree add --detach "$A/wt" HEAD -q; fi
PROP=$(grep "\"id\": \"$ID\"" /verif/properties.jsonl | jq '{id,title,statement,quantifier,why_tests_cant,anchors:{files:.anchors.files,mechanism:.anchors.mechanism,observe_at:.anchors.observe_at}}')
cat > "$A/prompt.md" <<P
You are helping to evaluate a verification framework for a small UCI chess engine written in Rust
(zacharygarwood/Flounder). Your job is to write TWO realistic code changes ("seeded changes") to the
engine that each BREAK the semantic property below, while the crate still compiles and its existing
test suite still passes. You work ONLY in your own scratch git worktree: $A/wt (a detached worktree
of the engine repository). Never read or touch /verif or /repo, never commit anything, never push.

The property (this is everything you are told about it):

$PROP

What a good seeded change looks like:
* It looks like something a maintainer could plausibly write: a refactor, an optimisation, a new
  feature, a "simplification", a performance cache, a copy/paste slip. No comments that give it away.
* It must NOT be exposed at once by ordinary use. It needs something specific to manifest: a
  multi-step sequence of commands or calls, state carried from an earlier search/command/evaluation
  on the same object, an unusual input (a rare kind of move or position, an extreme number), a crash
  or deadline at a particular point, or two cooperating sites that each look fine alone.
$FLAV
* The two changes must be DIFFERENT in kind (different code site, different trigger). Prefer
  triggers that are rare: think about what a random tester that feeds thousands of generated
  positions / command scripts would still be unlikely to hit.
* With the change applied the crate must build with plain \`cargo build --offline\` AND with
  \`RUSTFLAGS="--cfg flounder_verif" cargo build --offline --target-dir target/verif\` (the code has
  some \`#[cfg(flounder_verif)]\` instrumentation hooks: leave them alone, do not edit or remove
  hook lines, and do not rely on them in the change).
* The existing test suite must still pass with the change:
  \`cargo nextest run --workspace --no-fail-fast --test-threads 8 --offline\` (91 tests, ~90 s; fall
  back to \`cargo test --offline\` if nextest is unavailable). Do not edit existing tests.
* No network. Everything offline.

For each change deliver, in $A/out/1/ and $A/out/2/ :
* patch.diff — \`git diff\` of the change alone against the clean HEAD of the worktree (must apply
  with \`git apply\` on a clean checkout). It must not contain the demonstration.
* a demonstration that FAILS with the change and PASSES without it, in one of two forms:
  - demo.diff: a \`git diff\` (against clean HEAD, independent of patch.diff, applying cleanly both
    with and without patch.diff) that adds a \`#[cfg(test)] mod seeded_demo { ... }\` to a source
    file; it is run with \`cargo test --offline seeded_demo\`; or
  - demo.sh: a bash script called as \`bash demo.sh <worktree>\` with the worktree as working
    directory, which builds the engine (\`cargo build --release --offline\`) and drives the binary
    over stdin/stdout; exit 0 = property observed to hold, non-zero = property broken. Use
    timeouts so it can never hang.
  The demonstration should test the PROPERTY (as stated above), not the implementation detail.
* meta.md — a short description: what the change is, why it breaks the property, exactly what is
  needed for it to manifest (and how rare that is), and what you ran to confirm (suite result,
  demo with / without the change).

Procedure: read the code under src/ (start with the anchors), design the change, apply it in the
worktree, build both ways, run the full suite, write the demo, confirm it fails with the change;
then save your change with \`git diff > file\` and \`git checkout -- .\` to get a clean tree (NEVER use \`git stash\`: the stash is shared with other worktrees of this repository), confirm the demo passes there. Save the files,
then restore the worktree to clean HEAD (\`git checkout -- . && git clean -fdq -e target\`) before
starting the second change, and again at the end. Keep the build directory \`target/\` inside the
worktree. Be careful that patch.diff and demo.diff are plain unified diffs produced by git.

Finish with a 5-line summary of the two changes (name, trigger, confirmed yes/no).
P
echo "$A/prompt.md"
