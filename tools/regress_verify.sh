#!/bin/bash
# tools/regress_verify.sh [name-filter] — for every seeded change, applies its patch in a scratch
# worktree and replays the regression files it produced (regress/<ID>/seeded-<name>.json): each
# must still be a VIOLATION there (the saved case really reproduces the failure, whatever the
# generators look like today) and OK on /repo.  Writes seeded/_regress_verify.txt.
set -u
V=/verif; OUT=$V/seeded/_regress_verify.txt; FILTER="${1:-}"
[ -z "$FILTER" ] && : > "$OUT"
for d in $V/seeded/*/; do
  NAME=$(basename "$d"); [ -f "$d/patch.diff" ] || continue
  [ -n "$FILTER" ] && [[ "$NAME" != *$FILTER* ]] && continue
  FILES=$(ls $V/regress/*/seeded-$NAME.json 2>/dev/null); [ -z "$FILES" ] && continue
  S=/tmp/sw/$NAME.rv; rm -rf "$S" "$S.work"; mkdir -p /tmp/sw
  git -C /repo worktree add --detach "$S" HEAD -q || continue
  if ! ( cd "$S" && git apply "$d/patch.diff" ); then echo "$NAME PATCH-DOES-NOT-APPLY" >> "$OUT"; git -C /repo worktree remove --force "$S"; continue; fi
  for f in $FILES; do
    ID=$(basename $(dirname "$f"))
    ( cd "$V" && VERIF_REPO="$S" VERIF_WORK="$S.work" ./check "$ID" --replay "$f" ) > "$S.work.log" 2>&1; rc_seeded=$?
    ( cd "$V" && ./check "$ID" --replay "$f" ) > /dev/null 2>&1; rc_clean=$?
    echo "$NAME $ID on-seeded-tree rc=$rc_seeded (want 1) on-/repo rc=$rc_clean (want 0)" | tee -a "$OUT"
  done
  git -C /repo worktree remove --force "$S"; rm -rf "$S.work" "$S.work.log"
done
