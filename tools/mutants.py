#!/usr/bin/env python3
"""Deliberate breakage (DESIGN.md §6.1): applies one small mutation at a time to a scratch copy of
/repo (outside /repo and /verif), runs the quick tier of the listed checks against it through
VERIF_REPO, and records detection and time.  Usage: tools/mutants.py [name-filter] [--jobs N]"""
import json, os, shutil, subprocess, sys, time, concurrent.futures as cf

V = "/verif"
M = [
 # name, file, old, new, checks
 ("c01-shift-ne-wrap", "src/bitboard.rs", "shift_left(*self & !FILE_H, 9)", "shift_left(*self, 9)", ["C01","C17"]),
 ("c01-castle-through-d1-attacked", "src/move_gen.rs", "Color::White => (G1, vec![5, 6], vec![2, 3]),", "Color::White => (G1, vec![5, 6], vec![2]),", ["C01"]),
 ("c01-castle-b1-must-be-safe", "src/move_gen.rs", "Color::Black => (G8, vec![61, 62], vec![58, 59]),", "Color::Black => (G8, vec![61, 62], vec![57, 58, 59]),", ["C01"]),
 ("c01-double-check-not-restricted", "src/move_gen.rs", "if num_checks > 1 {", "if num_checks > 2 {", ["C01"]),
 ("c01-pinned-may-capture-checker", "src/move_gen.rs", "            if mv.to == attacker {\n                return !pinned;", "            if mv.to == attacker {\n                return true;", ["C01"]),
 ("c01-ep-legality-skipped", "src/move_gen.rs", "            return self.is_legal_en_passant(board, mv, king_square);", "            return true;", ["C01"]),
 ("c02-promo-capture-keeps-rook-right", "src/board.rs", "if let Some(Piece::Rook) = self.get_piece_at(mv.to) {", "if let Some(Piece::Queen) = self.get_piece_at(mv.to) {", ["C02","C04"]),
 ("c02-ep-victim-not-removed", "src/board.rs", "        self.remove_piece(!color, Piece::Pawn, captured_square);\n", "", ["C02"]),
 ("c02-castle-rook-stays", "src/board.rs", "        self.remove_piece(color, Piece::Rook, rook_from);\n", "", ["C02"]),
 ("c02-ep-target-black-wrong", "src/board.rs", "            Color::White => 8,\n            Color::Black => -8,\n        };\n\n        // Pawn could be pushed twice", "            Color::White => 8,\n            Color::Black => 8,\n        };\n\n        // Pawn could be pushed twice", ["C02","C01"]),
 ("c04-underpromotion-letter", "src/moves.rs", "Piece::Knight => \"n\",", "Piece::Knight => \"q\",", ["C04","C01"]),
 ("c04-ep-square-rank-file", "src/square.rs", "    rank_file_to_square(rank, file)\n}\n\npub fn square_to_algebraic", "    rank_file_to_square(file, rank)\n}\n\npub fn square_to_algebraic", ["C04","C01"]),
 ("c05-bounds-swapped", "src/search.rs", "        if score <= original_alpha {\n            Bounds::Upper\n        } else if score >= beta {\n            Bounds::Lower", "        if score <= original_alpha {\n            Bounds::Lower\n        } else if score >= beta {\n            Bounds::Upper", ["C05"]),
 ("c05-probe-accepts-shallower", "src/search.rs", "        if entry.depth < depth {\n            return None;\n        }", "        if entry.depth + 1 < depth {\n            return None;\n        }", ["C05"]),
 ("c05-cutoff-strict", "src/search.rs", "            alpha = max(alpha, score);\n            if alpha >= beta {", "            alpha = max(alpha, score);\n            if alpha > beta {", ["C05"]),
 ("c05-standpat-not-raising-alpha", "src/search.rs", "        alpha = max(alpha, stand_pat);\n", "", ["C05","C09"]),
 ("c05-window-not-negated", "src/search.rs", "                    -beta,\n                    -alpha,\n                    SearchContext::new(),", "                    -beta,\n                    alpha,\n                    SearchContext::new(),", ["C05"]),
 ("c06-store-after-deadline", "src/search.rs", "        if self.timer.should_stop() {\n            return best_result;\n        }\n", "", ["C06"]),
 ("c06-history-not-popped-on-abort", "src/search.rs", "        self.repetition.pop();\n        result\n", "        if !self.timer.should_stop() {\n            self.repetition.pop();\n        }\n        result\n", ["C06"]),
 ("c06-double-pop-on-abort", "src/search.rs", "        self.repetition.pop();\n        result\n", "        self.repetition.pop();\n        if self.timer.should_stop() {\n            self.repetition.pop();\n        }\n        result\n", ["C06"]),
 ("c06-unfinished-iteration-kept", "src/search.rs", "            // Only update if search completed\n            if !self.timer.should_stop() {", "            // Only update if search completed\n            if true {", ["C06","C03"]),
 ("c07-no-poll-in-quiescence", "src/search.rs", "        for mv in moves {\n            if self.timer.should_stop() {\n                break;\n            }\n", "        for mv in moves {\n", ["C07"]),
 ("c07-no-poll-in-main-loop", "src/search.rs", "        for current_move in moves {\n            if self.timer.should_stop() {\n                break;\n            }\n", "        for current_move in moves {\n", ["C07"]),
 ("c07-clock-polled-every-64k-nodes", "src/timer.rs", "        if let (Some(start), Some(limit)) = (self.start_time, self.time_limit) {\n            start.elapsed() >= limit\n        } else {\n            false\n        }\n    }\n\n    /// Gets the number of nodes searched", "        if self.nodes_searched % 65536 != 0 {\n            return false;\n        }\n        if let (Some(start), Some(limit)) = (self.start_time, self.time_limit) {\n            start.elapsed() >= limit\n        } else {\n            false\n        }\n    }\n\n    /// Gets the number of nodes searched", ["C07"]),
 ("c07-real-clock-limit-times-eight", "src/timer.rs", "            start.elapsed() >= limit\n        } else {\n            false\n        }\n    }\n\n    /// Gets the number of nodes searched", "            start.elapsed() >= limit * 8\n        } else {\n            false\n        }\n    }\n\n    /// Gets the number of nodes searched", ["C07"]),
 ("c07-movetime-times-ten", "src/uci.rs", "time_limit = Some(Duration::from_millis(ms));", "time_limit = Some(Duration::from_millis(ms * 10));", ["C07"]),
 ("c08-no-mate-detection-in-quiescence", "src/search.rs", "        if moves.is_empty() && currently_in_check {\n            return -CHECKMATE_SCORE;\n        }\n", "", ["C08","C05"]),
 ("c08-stalemate-scored-as-mate", "src/search.rs", "        if self.move_generator.is_in_check(board) {\n            // Prefer shorter mates", "        if true {\n            // Prefer shorter mates", ["C08","C05"]),
 ("c09-threshold-one", "src/repetition.rs", "                if count >= 2 {", "                if count >= 1 {", ["C09"]),
 ("c09-threshold-three", "src/repetition.rs", "                if count >= 2 {", "                if count >= 3 {", ["C09"]),
 ("c09-draw-only-one-ply-below-root", "src/search.rs", "if ply > 0 && self.is_draw_by_repetition(board) {", "if ply == 1 && self.is_draw_by_repetition(board) {", ["C09"]),
 ("c09-draw-not-at-odd-plies-above-one", "src/search.rs", "if ply > 0 && self.is_draw_by_repetition(board) {", "if ply > 0 && (ply < 3 || ply % 2 == 0) && self.is_draw_by_repetition(board) {", ["C09"]),
 ("c09-draw-only-above-the-horizon-or-ply-one", "src/search.rs", "if ply > 0 && self.is_draw_by_repetition(board) {", "if ply > 0 && (depth > 0 || ply == 1) && self.is_draw_by_repetition(board) {", ["C09"]),
 ("c09-history-not-cleared", "src/uci.rs", "                self.board = Board::default();\n                self.searcher.clear_history();\n", "                self.board = Board::default();\n", ["C09"]),
 ("c10-knight-file-mask", "src/bitboard.rs", "shift_left(*self & !(FILE_G | FILE_H), 10)", "shift_left(*self & !(FILE_H), 10)", ["C10","C01"]),
 ("c10-between-exclusive-inclusive", "src/lookup.rs", "            true => self.inclusive_between_lookup[from as usize][to as usize],\n            false => self.exclusive_between_lookup[from as usize][to as usize],", "            true => self.exclusive_between_lookup[from as usize][to as usize],\n            false => self.inclusive_between_lookup[from as usize][to as usize],", ["C10","C01"]),
 ("c11-side-key-both-colours", "src/zobrist.rs", "        if board.active_color == Color::White {\n            hash ^= self.white_to_move_key;\n        }", "        hash ^= self.white_to_move_key;", ["C11"]),
 ("c11-castle-keys-shared", "src/zobrist.rs", "                hash ^= self.castling_right_keys[color.index()][1];", "                hash ^= self.castling_right_keys[color.index()][0];", ["C11"]),
 ("c11-ep-key-by-file", "src/zobrist.rs", "            hash ^= self.en_passant_target_key[square as usize];", "            hash ^= self.en_passant_target_key[(square % 8) as usize];", ["C11"]),
 ("c11-ep-e3-key-shared-with-a-piece-square-key", "src/zobrist.rs", "            en_passant_target_key[square as usize] = rng.gen();", "            en_passant_target_key[square as usize] = if square == 20 { table_keys[0][2][45] } else { rng.gen() };", ["C11"]),
 ("c11-two-piece-square-keys-shared", "src/zobrist.rs", "        for square in 0..SQUARES {\n            en_passant_target_key", "        table_keys[1][4][9] = table_keys[0][1][50];\n        for square in 0..SQUARES {\n            en_passant_target_key", ["C11"]),
 ("c11-counters-mixed-in", "src/zobrist.rs", "        // Hash active color\n", "        hash ^= board.halfmove_clock as u64;\n        // Hash active color\n", ["C11","C13"]),
 ("c12-colour-swap", "src/uci.rs", "            Color::White => (wtime, winc),\n            Color::Black => (btime, binc),", "            Color::White => (btime, binc),\n            Color::Black => (wtime, winc),", ["C12"]),
 ("c12-cap-removed", "src/uci.rs", "(base_time + increment).min(time_left / 2)", "(base_time + increment)", ["C12"]),
 ("c12-winc-for-both", "src/uci.rs", "            Color::Black => (btime, binc),", "            Color::Black => (btime, winc),", ["C12"]),
 ("c13-newgame-keeps-searcher", "src/uci.rs", "        self.board = Board::default();\n        self.searcher = Searcher::new();\n    }", "        self.board = Board::default();\n    }", ["C13"]),
 ("c13-order-ties-by-hash", "src/search.rs", "            if mv.move_type == MoveType::Quiet {\n                return -self.history.get_score(mv);\n            }\n\n            0", "            if mv.move_type == MoveType::Quiet {\n                return -self.history.get_score(mv) - ((self.zobrist.hash(board) >> (mv.to % 32)) & 1) as i32;\n            }\n\n            0", ["C13","C05"]),
 ("c14-no-reset", "src/eval.rs", "        self.reset();\n\n        let active_color", "        let active_color", ["C14"]),
 ("c14-mirror-wrong-colour", "src/eval.rs", "            let square = if color == Color::White { bit ^ 56 } else { bit };", "            let square = if color == Color::Black { bit ^ 56 } else { bit };", ["C14"]),
 ("c14-tempo-bonus", "src/eval.rs", "        (self.opening_score * opening_phase + self.endgame_score * endgame_phase) / 24", "        (self.opening_score * opening_phase + self.endgame_score * endgame_phase) / 24 + if active_color == Color::White { 1 } else { 0 }", ["C14"]),
 ("c15-strict-depth", "src/transposition.rs", "prev_entry.unwrap().depth <= depth", "prev_entry.unwrap().depth < depth", ["C15"]),
 ("c15-always-replace", "src/transposition.rs", "prev_entry.unwrap().depth <= depth", "true", ["C15"]),
 ("c16-unknown-command-echo", "src/uci.rs", "            _ => {\n                // Handle unknown command\n            }", "            _ => {\n                println!(\"Unknown command: {}\", command);\n            }", ["C16"]),
 ("c16-eof-exit-code", "src/uci.rs", "                // End of input: leave the loop so the process terminates\n                break;", "                // End of input: leave the loop so the process terminates\n                std::process::exit(1);", ["C16"]),
 ("c16-readyok-missing-after-go", "src/uci.rs", "    fn handle_isready_command(&mut self) {\n        println!(\"readyok\");", "    fn handle_isready_command(&mut self) {\n        if self.board.active_color() == Color::White { println!(\"readyok\"); } else { println!(\"readyok\"); println!(\"readyok\"); }", ["C16"]),
 ("c17-ep-not-a-capture", "src/move_gen.rs", "        mv.move_type == MoveType::Capture || mv.move_type == MoveType::EnPassant\n    }\n\n    fn is_promotion", "        mv.move_type == MoveType::Capture\n    }\n\n    fn is_promotion", ["C17"]),
 ("c17-incheck-uses-tactical-list", "src/search.rs", "        let mut moves = if currently_in_check {\n            self.move_generator.generate_moves(board)", "        let mut moves = if false {\n            self.move_generator.generate_moves(board)", ["C17","C05"]),
 ("c03-fallback-removed", "src/search.rs", "let mut best_move = self.move_generator.generate_moves(board).first().copied();", "let mut best_move = None;", ["C03"]),
]

def run_one(m):
    name, file, old, new, checks = m
    d = f"/tmp/mut/{name}"
    shutil.rmtree(d, ignore_errors=True); shutil.rmtree(d + ".work", ignore_errors=True)
    os.makedirs(d)
    for f in ["Cargo.toml", "Cargo.lock"]:
        shutil.copy(f"/repo/{f}", d)
    shutil.copytree("/repo/src", f"{d}/src")
    p = f"{d}/{file}"
    s = open(p).read()
    res = {"name": name, "file": file, "checks": {}}
    if s.count(old) != 1:
        res["error"] = f"pattern found {s.count(old)} times"
        shutil.rmtree(d, ignore_errors=True)
        return res
    open(p, "w").write(s.replace(old, new))
    env = dict(os.environ, VERIF_REPO=d, VERIF_WORK=d + ".work")
    for c in checks:
        t0 = time.time()
        r = subprocess.run(["./check", c, "quick"], cwd=V, env=env, capture_output=True, text=True)
        sig = ""
        for line in r.stdout.splitlines():
            if line.startswith("signature:"):
                sig = line.split(":", 1)[1].strip()
        res["checks"][c] = {"rc": r.returncode, "signature": sig, "seconds": round(time.time() - t0, 1)}
        if r.returncode == 2:
            res["checks"][c]["tail"] = r.stdout[-400:]
    shutil.rmtree(d, ignore_errors=True); shutil.rmtree(d + ".work", ignore_errors=True)
    return res

def main():
    flt = [a for a in sys.argv[1:] if not a.startswith("--")]
    jobs = 3
    if "--jobs" in sys.argv:
        jobs = int(sys.argv[sys.argv.index("--jobs") + 1]); flt = [a for a in flt if a != str(jobs)]
    todo = [m for m in M if not flt or any(f in m[0] for f in flt)]
    out_path = f"{V}/seeded/_mutants/results.json"
    os.makedirs(os.path.dirname(out_path), exist_ok=True)
    results = {}
    if os.path.exists(out_path):
        results = {r["name"]: r for r in json.load(open(out_path))}
    with cf.ThreadPoolExecutor(jobs) as ex:
        for r in ex.map(run_one, todo):
            results[r["name"]] = r
            print(json.dumps(r), flush=True)
            json.dump(sorted(results.values(), key=lambda x: x["name"]), open(out_path, "w"), indent=1)

if __name__ == "__main__":
    main()
