#!/usr/bin/env python3
"""Writes /verif/MANIFEST.json from the table below (kept in one place so it stays valid)."""
import json, subprocess, os

V = os.path.dirname(os.path.dirname(os.path.abspath(__file__)))

CHECKS = {
 "C01": dict(level="exploration", design="DESIGN.md §4 C01",
   technique="property-based testing: generated positions (proptest-driven byte decoders + libFuzzer) vs independent reference move generator (differential), plus mirror metamorphic relation",
   text="Generated-input search: ~140k (quick) / millions (thorough) valid positions from playouts, arbitrary placements and constructed motifs; the engine's move multiset and check test must equal an independent perft-validated reference. Exploration is the right level: the domain (~10^44 positions) cannot be enumerated, but an exact executable oracle exists. Plus the ENUMERATED check-geometry grid (336k sparse constructions: every kind of check on every line, every ep pin; 1.09 M positions in which such a check has to be answered). Occupancy twins (promotion siblings, exchanged kinds) are asked on one generator in interleaved order (check test of one, move list of the other).",
   note="Trusted: refchess (validated against published perft totals and breakdowns at every start); positions reach the engine through FEN text."),
 "C02": dict(level="exploration", design="DESIGN.md §4 C02",
   technique="property-based testing: lock-step model-based comparison of successor positions against a reference model over generated move histories",
   text="Every legal move of generated positions and lock-step playouts up to 300 plies; after every move placement, side, rights, ep target and bitboard consistency are compared with the reference successor. Plus two enumerated grids: castling-rights bookkeeping (every subset of rights x one further man of every kind and colour on every square, every legal move played both ways) and every legal move of the check-geometry grid.",
   note="Trusted: refchess make(); ep convention as stated in DESIGN.md (exact when a capturer is adjacent)."),
 "C10": dict(level="exploration", design="DESIGN.md §4 C10",
   technique="exhaustive enumeration of ray-occupancy subsets and square pairs against a coordinate ray-walk oracle, plus generated random occupancies",
   text="Complete enumeration of every subset of every square's rook and bishop rays (bare and with off-ray noise), all knight/king squares, all 4032 ordered pairs of the line tables; plus millions of random full-board occupancies for the queen. Part 'sequences' (lookups in order on one table): position sweeps (one occupancy, every ordered pair of lookups over R/B/Q and 64 x 64 squares) and revisits after N lookups from other squares, N around the powers of two up to 2^17.",
   note="Assumes bits off the rays cannot matter (exercised with noise, not proved); between(a,a) is outside the property."),
 "C14": dict(level="exploration", design="DESIGN.md §4 C14",
   technique="property-based testing of algebraic laws (purity under evaluation order, antisymmetry, mirror symmetry, bound) over generated positions and evaluation sequences",
   text="Sequences of evaluations on one long-lived evaluator compared with fresh evaluators; exact antisymmetry and mirror symmetry; |eval| < 32767 with the measured maximum reported; includes an extreme-material family. Enumerated part 'material': every material signature with up to three men besides the king on each side, 60 placements each, rows through one evaluator. Every position of a sequence is followed on the same evaluator by an occupancy twin (same squares and colours, one man of another kind); material rows end with the extreme counts promotions can produce.",
   note="'Well inside the window' is judged by the necessary condition |eval| < 32767."),
 "C15": dict(level="exploration", design="DESIGN.md §4 C15",
   technique="model-based (state-machine) property testing: generated store/retrieve histories on near-colliding key universes checked after every operation against an observational model of exactly the statement (a lookup may return nothing at any time; nothing else may differ)",
   text="Op histories up to 400 ops on near-colliding key universes; every observable retrieve compared with the model after every op. Long histories (over a million distinct keys) with tracked keys; never-stored probes include 0, MAX, 1, 2^63.",
   note="Rules: never-stored key has nothing; between stores a key shows its last observed entry or nothing (and stays nothing); a store onto nothing or depth <= new depth is retrievable at once; a store onto a deeper entry leaves it. A forgetting (bounded) table is not a violation."),

 "C04": dict(level="exploration", design="DESIGN.md §4 C04",
   technique="property-based testing: generated position-command histories through the real command handler vs reference model position (round trip through FEN text and UCI move lists)",
   text="Histories of 1..3 position commands (startpos or reference-written six-field FEN with counters a real game can reach — clock never above the plies played, often exactly on that bound — plus reference-legal move lists up to 250 plies with castles, ep and under-promotions), with ucinewgame/isready between them and later commands repeating or continuing the previous one; the engine's board after every command must equal the reference position. Enumerated parts: 'grid-moves' (grid positions followed by one move: every castle, en-passant capture, promotion letter, double push, corner capture) and 'castle-lookalikes' (moves spelt like a castle made by a rook or queen); a quarter of the commands after a game with a promotion re-letter that promotion.",
   note="Trusted: refchess; hooks verif_handle_command/verif_board only expose the private handler and board."),
 "C05": dict(level="exploration", design="DESIGN.md §4 C05, §3.3",
   technique="differential property-based testing: engine search vs definitional plain-minimax reference (no pruning/ordering/caching) over an independent rules model, exact integer comparison, plus audit of every cached table entry as a (depth,bound,score) claim",
   text="Generated small positions, iterative searches depth 1..3 and fixed-depth searches 4..5 on a fresh engine; score must equal the reference minimax value exactly (won/lost as classes), the move must attain it, and every table entry left behind must be a true claim. Leaf values come from definitional quiescence minimax when that tree is finite and from an independent alpha-beta reference (cross-checked against the definitional one) otherwise. Enumerated parts: K+P v K promotion grid; positions of the check-geometry grid and their boxed mates at depth 1..3.",
   note="Trusted: refchess, the engine's evaluation as leaf scorer (C14), the soundness argument for the alpha-beta leaf reference in DESIGN.md §3.3. Cases over the reference node cap or with deeper-entry reuse are excluded and counted."),
 "C06": dict(level="fault_enumeration", design="DESIGN.md §4 C06",
   technique="fault-point enumeration inside a property-based test: the deadline is a generated/enumerated node count (hook), every expiry point of small searches is tried; oracle = reference minimax + table-claim audit + history snapshot",
   text="For generated positions every node count 1..T-1 at which the deadline can fall is enumerated (sampled for larger searches), alone and in sequences of 1..3 interruptions; after each, the history record must be unchanged, every table entry left behind must be a true claim, and a completed follow-up search must report the reference value. Parts 'last-iteration' (many positions, tiny ones — pawn endings above all — to depth 5..7, 14 deadlines each inside the last iteration; only positions whose uninterrupted search reuses no deeper cached result) and 'last-iteration-large' (8..22 men at depth 3..4, follow-up compared with a fresh engine's fixed-depth value).",
   note="Deadline expressed in nodes via the SearchTimer hook (at node k the timer's own limit becomes zero; the engine's real deadline test decides). Reference as in C05."),
 "C07": dict(level="fault_enumeration", design="DESIGN.md §4 C07",
   technique="fault-point enumeration/sampling of deadline node counts (stateful: optional earlier searches on the same engine) with an invariant on passive instrumentation counters (observation latency, work after the expiry became observable), incl. constructed explosive positions; plus black-box property testing of the real binary under a real clock judged on CPU time consumed after the budget",
   text="Node-count deadlines enumerated for small searches and sampled log-uniformly up to 300k (3M thorough) on middlegames and explosive quiescence shapes, on fresh engines and after earlier unlimited searches on the same engine; the first poll after the expiry must come within 4096 nodes, at most 256 nodes may follow, and the search must return (hard cap turns a runaway into a caught panic). Black-box layer: go movetime T / depth 64 movetime T / a clock with T left (T 0..300 ms) on the real binary, optionally after an earlier search in the process: CPU time consumed between go and bestmove must stay below T + 300 ms. Earlier searches in the process include depth-limited ones that leave a move time or clock of their own unused. In-process earlier searches may themselves have been cut off by a deadline (small, or after a million nodes and more); go lines may carry standard tokens the engine does not implement (nodes, movestogo, mate).",
   note="Node-count formulation via a passive hook (the engine's own deadline test decides). The black-box verdict uses CPU time of the single-threaded process (a lower bound of wall-clock time), never wall-clock time itself."),
 "C11": dict(level="exploration", design="DESIGN.md §4 C11",
   technique="property-based testing: metamorphic relations on the hash (transposing move orders and FEN-vs-play must be equal; single-component flips must differ) and population collision check, under several fresh key draws",
   text="Commuting move-order pairs verified equal by the reference, positions by FEN vs by play with different counters, single-feature flips through the public Board API, and pools of >=10^4 positions per worker; each under 8 (64 thorough) independent ZobristTable::new() draws. Enumerated part 'component-pairs': for every pair of components (man on a square, castling right, en-passant square, side to move: ~200 000 pairs with a pair of valid positions) two positions differing in exactly those two must hash differently. Part 'marathon': one table per case, 40 000 positions with ever new pawn structures, earlier ones hashed again (each keeps its first value).",
   note="Keys come from thread_rng and cannot be seeded; inequality verdicts carry a 2^-64 coincidence risk; failing pairs are re-checked under 8 fresh draws."),
 "C12": dict(level="exploration", design="DESIGN.md §4 C12",
   technique="property-based testing: metamorphic independence (opponent clock, token order) and bound check on the budget produced by the real go parser (hook)",
   text="Millions of generated clock five-tuples from a boundary-rich mixture, all 24 token orders, either side to move; the budget handed to the search must not depend on the opponent's values or the order and must fit strictly inside the mover's remaining time. Part 'effective': sequences of real depth-1 searches with clocks on one engine; the limit the search timer was really started with (read back after each search) must fit in the mover's clock and be the same on a twin engine given other clocks for the opponent.",
   note="Hook verif_go_budget records (depth, time limit) just before the search and returns."),
 "C16": dict(level="exploration", design="DESIGN.md §4 C16",
   technique="property-based testing of the real process: generated command scripts over stdin, stdout parsed against a line-by-line transcript grammar (reference model of the protocol), exit status checked",
   text="Generated scripts of all line kinds incl. unknown/blank/UTF-8 lines, ending in quit (with trailing lines) or end of input (with/without final newline); stdout must match the slot grammar exactly and the process must exit 0. Unknown lines include lines with bytes that are not valid UTF-8. Long scripts (260..760 lines), very long lines incl. one long token with a command word glued in at a power-of-two offset, position lines that continue the previous one's game.",
   note="Termination judged with a 5 s allowance on an idle process; a go that never answers is inconclusive (exit 2)."),

 "C03": dict(level="exploration", design="DESIGN.md §4 C03",
   technique="stateful (model-based) property testing in-process with node-count budgets as deterministic expiry points, plus black-box script testing of the real process; oracle = reference legal-move set of the position last set",
   text="Layer A: generated op lists (newgame / position / play / resume the pre-newgame command / search with depth 1..4 and budgets expiring before, inside and between iterations) on one engine, the answer of every search must be a reference-legal move of the current position iff one exists. Layer B: the real binary driven over pipes with depth, movetime and clock-based go commands on both sides of the 5 s reserve; exactly one bestmove line per go, legal, 0000 only when no move exists. Part 'selfplay': games played out on one engine (the answer is played, the other side's go follows; deviations, take-backs, depths varying from move to move; some on engines whose tables are kept full by heavy searches in between), same invariant after every search.",
   note="Layer A observes the Option<Move> from which handle_go_command prints bestmove; node budgets (hook) stand for wall-clock budgets."),
 "C08": dict(level="exploration", design="DESIGN.md §4 C08",
   technique="property-based testing with a validity-predicate oracle: constructed mate-in-one and allows-mate-in-one positions (verified by the reference), engine answer checked against Mates(p) / Allows(p)",
   text="Thousands of positions with a verified mate in one (heavy-piece constructions, retractions from generated checkmates, perturbed mate shapes) searched at depth 1..4, and positions with a verified mix of moves that do and do not allow a mate in one searched at depth 2..3; the predicate, not one expected move, is checked. Enumerated / searched families: 'grid-mates' (every kind of checking move of the check-geometry grid turned into a mate by boxing the king in, also with a free capture on the board), 'corner-mates' (K+minor(s) v K(+1), both families), 'only-castle-mates' (seeded search for positions in which castling is the only mate in one).",
   note="Mates/Allows computed by refchess; fresh Searcher per search; searches over the node watchdog are excluded and counted."),
 "C09": dict(level="exploration", design="DESIGN.md §4 C09",
   technique="property-based testing over generated game histories with controlled repetition multiplicities; oracle = occurrence count in the reference history combined with reference quiescence values (depth-1 value equation), through the real position/go command path",
   text="Histories built from prefixes, 0..3 shuffle cycles, long reversible excursions and partial cycles (with lost rights, irreversible moves, earlier position commands that must not count, and the final position given again as a bare command whose history is that one position); the engine's depth-1 score after 'position ... / go depth 1' must equal max over moves of (seen twice before ? 0 : real value). Part 'deep': go depth 2..3, every completed iteration must report the plain-minimax value in which any position below the root already seen twice is worth 0. Part 'veteran': the depth-1 oracle on an engine whose tables have grown to hundreds of thousands of entries through heavy searches of other positions. Part 'interrupted': the oracle (depth 1, or the deep one at depth 2..3) after searches of the judged position were cut off by a deadline, no position command in between. Enumerated part 'two-components': 1024 histories in which a position comes back without its en-passant square and without castling rights.",
   note="Successors whose count depends on the ep convention are excluded; reference quiescence as in C05."),
 "C13": dict(level="exploration", design="DESIGN.md §4 C13",
   technique="differential testing between independent runs of the real process (each with fresh random keys) and metamorphic fresh-equivalence for ucinewgame, over generated depth-limited command scripts",
   text="Generated scripts with carried-over search state are run in 3 (8 thorough) separate processes and must give identical normalised output, including a few scripts with multi-million-node searches (table-capacity effects); prefix + ucinewgame + suffix must give the same suffix output as a fresh process, with new games that revisit positions of the old one, shuffle games next to the start position and a bare go right after ucinewgame. Engine-played games (forced mates, mate scores in the table) as scripts for both oracles.",
   note="Key-set dependence is sampled with R runs per script; only time and nps fields are removed."),
 "C17": dict(level="exploration", design="DESIGN.md §4 C17",
   technique="differential property-based testing of the quiescence move set against the reference (captures, promotions, checks incl. discovered), on generated positions and on every quiescence node recorded inside real searches (hook)",
   text="Public generate_quiescence_moves compared as a multiset with the reference tactical set on ~60k generated positions incl. discovered-check, ep-check, castling-check and under-promotion-check motifs; every quiescence node visited by real depth-1..2 searches (in-check nodes must list all legal moves); and the nodes lying >= 10 plies below the horizon in depth-1..4 searches of full middlegames and in direct calls of the quiescence search with generated windows (hundreds of nodes >= 32 plies deep per quick run). Plus the ENUMERATED check-geometry grid through the public entry point (every direct and discovered check, castling checks on file and back rank, en-passant checks and pins).",
   note="Hook records the list search_until_quiet chose, before ordering, with the node's nesting depth below the horizon."),
}

NOT_YET = {}

def main():
    props = [json.loads(l) for l in open(os.path.join(V, "properties.jsonl"))]
    try:
        commits = subprocess.check_output(["git", "-C", "/repo", "log", "--format=%H %s", "4d53d55..HEAD"], text=True).strip().splitlines()
    except Exception:
        commits = []
    hook_commits = [c.split()[0] for c in commits if "verif hooks" in c]
    checks = []
    na = []
    for p in props:
        i = p["id"]
        if i in CHECKS:
            c = CHECKS[i]
            checks.append({
                "property_id": i,
                "quick_cmd": f"./check {i} quick",
                "thorough_cmd": f"./check {i} thorough",
                "evidence_file": f"/verif/evidence/{i}.json",
                "replay_cmd_template": f"./check {i} --replay {{path}}",
                "engine": c.get("engine", "vcheck"),
                "level_claimed": {"category": c["level"], "text": c["text"], "design_ref": c["design"]},
                "level_note": c["note"],
                "technique": c["technique"],
            })
        else:
            na.append({"property_id": i, "reason": NOT_YET.get(i, "check not built yet in this round (planned: see DESIGN.md §4); not a limit of the technique")})
    m = {
        "version": 1,
        "setup_cmd": "cd /verif/harness && CARGO_NET_OFFLINE=true cargo build --release --offline -p vcheck",
        "hooks": {
            "guard": "--cfg flounder_verif",
            "enable": "harness: flsrc/build.rs emits cargo:rustc-cfg=flounder_verif and compiles /repo/src in place via #[path]; the engine binary driven by the black-box layers of C03 C07 C13 C16 is built with the guard OFF (cargo build --release --offline --manifest-path /repo/Cargo.toml --target-dir /verif/work/engine): it is the program as shipped",
            "baseline_off_cmd": "cd /repo && cargo nextest run --workspace --no-fail-fast --tool-config-file pb:/w/lib/nextest.toml --profile pb --test-threads 8 --offline || cargo test --workspace --no-fail-fast --offline",
            "source_commits": hook_commits,
            "add_only": True,
        },
        "engines": [
            {"name": "vcheck", "path": "/verif/harness/vcheck", "serves_properties": sorted(CHECKS.keys()),
             "kind_free_text": "Rust binary: proptest TestRunner (16 workers, seeded from VERIF_SEED) over byte-decoded structured cases, exhaustive enumeration where the domain is finite, black-box process driver; independent reference chess model in /verif/harness/refchess"},
        ],
        "checks": checks,
        "not_applicable": na,
        "notes": "All checks: ./check <ID> quick|thorough; replay: ./check <ID> --replay <file> (structural: the decoded case in the file is re-run, no generator involved). Exit 2 = harness could not decide (never a violation). Known findings: /verif/known_findings.json. Seeded breaking changes (171 in six rounds) and what catches them: /verif/seeded/*/meta.json and DESIGN.md §10, §11, §12. Hook commits only add cfg-guarded code; the later ones rewrite lines of earlier hook code, never original lines.",
    }
    json.dump(m, open(os.path.join(V, "MANIFEST.json"), "w"), indent=1)
    print("wrote MANIFEST.json:", len(checks), "checks,", len(na), "not claimed")

if __name__ == "__main__":
    main()
