#!/bin/bash
# tools/seeded_recheck.sh <name> <ID> [<ID>...] — re-runs the quick tier of the listed checks against
# the already confirmed seeded change seeded/<name>/patch.diff (scratch worktree under /tmp/sw,
# removed afterwards) and updates the RESULT line of seeded/<name>/confirm.log.
set -u
NAME="$1"; shift; IDS="$@"
V=/verif; OUT="$V/seeded/$NAME"; S=/tmp/sw/$NAME.re; rm -rf "$S" "$S.work"; mkdir -p /tmp/sw
git -C /repo worktree add --detach "$S" HEAD -q || exit 2
( cd "$S" && git apply "$OUT/patch.diff" ) || { echo "patch does not apply on HEAD"; git -C /repo worktree remove --force "$S"; exit 2; }
for id in $IDS; do
  ( cd "$V" && VERIF_REPO="$S" VERIF_WORK="$S.work" ./check "$id" ${TIER:-quick} ) > "$OUT/check_$id.log" 2>&1; rc=$?
  sig=$(grep -m1 "^signature:" "$OUT/check_$id.log" | sed 's/signature: //')
  echo "recheck $id ${TIER:-quick} rc=$rc ${sig}" | tee -a "$OUT/confirm.log"
  rp=$(grep -m1 "^VIOLATION" "$OUT/check_$id.log" | sed 's/.*replay=//')
  if [ -n "$rp" ] && [ -f "$rp" ]; then mkdir -p "$V/regress/$id"; cp "$rp" "$V/regress/$id/seeded-$NAME.json"; fi
  python3 - "$OUT/confirm.log" "$id" "$rc" "$sig" <<'PY'
import re,sys
log,id_,rc,sig=sys.argv[1:5]
t=open(log).read()
m=re.search(r"(RESULT \S+ suite=\[.*?\] demo_with=\S+ demo_without=\S+ checks=\[)(.*?)(\])", t)
if m:
    items=[c for c in m.group(2).split() if not c.startswith(id_+":")]
    items.append(f"{id_}:rc={rc}"+(f":{sig}" if sig else ""))
    t=t[:m.start()]+m.group(1)+" "+" ".join(items)+m.group(3)+t[m.end():]
    open(log,"w").write(t)
PY
done
git -C /repo worktree remove --force "$S"; rm -rf "$S.work"
