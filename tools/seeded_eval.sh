#!/bin/bash
# tools/seeded_eval.sh <name> <dir-with-patch.diff-and-demo> <ID> [<ID> ...]
# Confirms a seeded breaking change in scratch worktrees (outside /repo and /verif), runs the
# listed checks (quick tier) against it, records everything under /verif/seeded/<name>/ and
# removes the scratch trees again.
set -u
NAME="$1"; SRC="$2"; shift 2; IDS="$@"
V=/verif; OUT="$V/seeded/$NAME"; mkdir -p "$OUT"
S=/tmp/sw/$NAME; rm -rf "$S" "$S.clean" "$S.work"; mkdir -p /tmp/sw
cp "$SRC/patch.diff" "$OUT/patch.diff"
[ -f "$SRC/demo.diff" ] && cp "$SRC/demo.diff" "$OUT/demo.diff"
[ -f "$SRC/demo.sh" ] && cp "$SRC/demo.sh" "$OUT/demo.sh"
[ -f "$SRC/meta.md" ] && cp "$SRC/meta.md" "$OUT/agent_meta.md"
git -C /repo worktree add --detach "$S" HEAD -q || exit 2
git -C /repo worktree add --detach "$S.clean" HEAD -q || exit 2
LOG="$OUT/confirm.log"; : > "$LOG"
echo "== base commit $(git -C /repo log --format=%h -1)" >> "$LOG"
( cd "$S" && git apply "$OUT/patch.diff" ) >> "$LOG" 2>&1 || { echo "patch does not apply" | tee -a "$LOG"; }
# 1. compiles (guard off and on) and the existing suite passes with the change
( cd "$S" && cargo build --offline -q ) >> "$LOG" 2>&1; echo "build guard-off rc=$?" >> "$LOG"
( cd "$S" && RUSTFLAGS="--cfg flounder_verif" cargo build --offline -q --target-dir target/verif ) >> "$LOG" 2>&1; echo "build guard-on rc=$?" >> "$LOG"
( cd "$S" && cargo nextest run --workspace --no-fail-fast --test-threads 8 --offline 2>&1 | grep -E "Summary|FAIL|passed|failed" | tail -5 ) >> "$LOG" 2>&1
SUITE=$(grep -E "Summary" "$LOG" | tail -1)
# 2. demonstration: fails with the change, passes without it
DEMO_WITH=na; DEMO_WITHOUT=na
if [ -f "$OUT/demo.diff" ]; then
  DCMD='cargo test --offline seeded_demo'
  grep -q "flounder_verif" "$OUT/demo.diff" && DCMD='RUSTFLAGS="--cfg flounder_verif" cargo test --offline --target-dir target/verif seeded_demo'
  ( cd "$S" && git apply "$OUT/demo.diff" && eval "$DCMD" ) > "$OUT/demo_with_change.log" 2>&1; DEMO_WITH=$?
  ( cd "$S.clean" && git apply "$OUT/demo.diff" && eval "$DCMD" ) > "$OUT/demo_without_change.log" 2>&1; DEMO_WITHOUT=$?
  ( cd "$S" && git apply -R "$OUT/demo.diff" )
elif [ -f "$OUT/demo.sh" ]; then
  ( cd "$S" && WT="$S" REPO="$S" bash "$OUT/demo.sh" "$S" ) > "$OUT/demo_with_change.log" 2>&1; DEMO_WITH=$?
  ( cd "$S.clean" && WT="$S.clean" REPO="$S.clean" bash "$OUT/demo.sh" "$S.clean" ) > "$OUT/demo_without_change.log" 2>&1; DEMO_WITHOUT=$?
fi
echo "demo with change rc=$DEMO_WITH (expected != 0); without change rc=$DEMO_WITHOUT (expected 0)" >> "$LOG"
# 3. our checks against the changed tree
RES=""
for id in $IDS; do
  ( cd "$V" && VERIF_REPO="$S" VERIF_WORK="$S.work" ./check "$id" quick ) > "$OUT/check_$id.log" 2>&1; rc=$?
  sig=$(grep -m1 "^signature:" "$OUT/check_$id.log" | sed 's/signature: //')
  RES="$RES $id:rc=$rc${sig:+:$sig}"
  echo "check $id quick rc=$rc ${sig}" >> "$LOG"
  # keep the shrunk failing case as a regression input for the real tree
  rp=$(grep -m1 "^VIOLATION" "$OUT/check_$id.log" | sed 's/.*replay=//')
  if [ -n "$rp" ] && [ -f "$rp" ]; then mkdir -p "$V/regress/$id"; cp "$rp" "$V/regress/$id/seeded-$NAME.json"; fi
done
echo "RESULT $NAME suite=[$SUITE] demo_with=$DEMO_WITH demo_without=$DEMO_WITHOUT checks=[$RES]" | tee -a "$LOG"
git -C /repo worktree remove --force "$S"; git -C /repo worktree remove --force "$S.clean"; rm -rf "$S.work"
