#!/bin/bash
# tools/seeded_queue.sh <name> <srcdir> <IDs...>  — seeded_eval.sh serialised through a lock
exec flock /tmp/agent/eval.lock /verif/tools/seeded_eval.sh "$@"
