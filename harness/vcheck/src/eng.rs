//! Adapters between the reference model and the engine under test (only through FEN text,
//! UCI move strings and the engine's public accessors).

use flsrc::board::Board;
use flsrc::move_gen::MoveGenerator;
use flsrc::moves::Move;
use flsrc::pieces::{Color as EColor, Piece};
use refchess::{Color, Kind, Pos};
use std::cell::RefCell;

thread_local! {
    static MG: RefCell<Option<std::rc::Rc<MoveGenerator>>> = RefCell::new(None);
}

/// One move generator (lookup tables) per thread.
pub fn mg() -> std::rc::Rc<MoveGenerator> {
    MG.with(|c| {
        let mut c = c.borrow_mut();
        if c.is_none() {
            *c = Some(std::rc::Rc::new(MoveGenerator::new()));
        }
        c.as_ref().unwrap().clone()
    })
}

thread_local! {
    /// (halfmove clock, fullmove number) wished for the boards built in the current case
    static COUNTER_WISH: std::cell::Cell<(u32, u32)> = std::cell::Cell::new((0, 1));
}

/// Every case carries move counters for the FENs it builds boards from (the properties
/// quantify over all valid positions, whatever their counters).  The wish is derived from the
/// last bytes of the generated input: mostly "0 1", otherwise values around the fifty/seventy-five
/// move marks and arbitrary ones; it is clamped per position to what a real game can show.
pub fn set_counter_wish_from_bytes(bytes: &[u8]) {
    let n = bytes.len();
    let (a, b) = if n >= 2 { (bytes[n - 1], bytes[n - 2]) } else { (0, 0) };
    let wish = match a % 10 {
        0..=5 => (0, 1),
        6 => ([98u32, 99, 100, 101][(b % 4) as usize], 60 + (b as u32 % 7) * 40),
        7 => ([148u32, 149, 150, 50][(b % 4) as usize], 80 + b as u32 * 3),
        8 => (b as u32 % 151, 1 + (b as u32 * 37) % 400),
        _ => (b as u32 % 20, 1 + b as u32 % 30),
    };
    COUNTER_WISH.with(|c| c.set(wish));
}

pub fn set_counter_wish(half: u32, full: u32) {
    COUNTER_WISH.with(|c| c.set((half, full)));
}

/// The counters used for `p` in this case: the wish, clamped to what a game can reach (clock at
/// most the plies played and at most 150; 0 right after a double push).
pub fn counters_for(p: &Pos) -> (u32, u32) {
    let (hw, fw) = COUNTER_WISH.with(|c| c.get());
    let full = fw.max(1);
    let plies = 2 * (full - 1) + if p.stm == Color::B { 1 } else { 0 };
    let half = if p.ep.is_some() { 0 } else { hw.min(plies).min(150) };
    (half, full)
}

/// The six-field FEN through which `p` reaches the engine in this case.
pub fn fen(p: &Pos) -> String {
    let (h, f) = counters_for(p);
    p.fen(h, f)
}

/// Reads a saved FEN back (structural replays) and makes its counters the wish of the case.
pub fn pos_from_saved_fen(fen: &str) -> Option<Pos> {
    let (p, h, f) = Pos::from_fen(fen).ok()?;
    set_counter_wish(h, f);
    Some(p)
}

pub fn to_board(p: &Pos) -> Board {
    Board::new(&fen(p))
}

pub fn ekind(p: Piece) -> Kind {
    match p {
        Piece::Pawn => Kind::P,
        Piece::Knight => Kind::N,
        Piece::Bishop => Kind::B,
        Piece::Rook => Kind::R,
        Piece::Queen => Kind::Q,
        Piece::King => Kind::K,
    }
}
pub fn ecolor(c: EColor) -> Color {
    match c {
        EColor::White => Color::W,
        EColor::Black => Color::B,
    }
}

pub fn engine_move_strings(g: &MoveGenerator, b: &Board) -> Vec<String> {
    let mut v: Vec<String> = g.generate_moves(b).iter().map(|m| m.to_algebraic()).collect();
    v.sort();
    v
}

pub fn find_engine_move(g: &MoveGenerator, b: &Board, uci: &str) -> Option<Move> {
    g.generate_moves(b).into_iter().find(|m| m.to_algebraic() == uci)
}

/// Five-point comparison of an engine board with the reference position (C02 / C04):
/// placement, side to move, castling rights, ep target (with the stated convention),
/// internal consistency read through the public accessors.
pub fn compare_board(b: &Board, p: &Pos) -> Result<(), String> {
    use flsrc::pieces::Piece::*;
    let kinds = [Pawn, Knight, Bishop, Rook, Queen, King];
    // internal consistency
    let mut union_p = 0u64;
    for (i, k) in kinds.iter().enumerate() {
        let bb = b.bb_piece(*k);
        for k2 in kinds.iter().skip(i + 1) {
            if bb & b.bb_piece(*k2) != 0 {
                return Err(format!("piece bitboards {:?} and {:?} overlap", k, k2));
            }
        }
        union_p |= bb;
    }
    let (w, bl) = (b.bb_color(EColor::White), b.bb_color(EColor::Black));
    if w & bl != 0 {
        return Err("colour bitboards overlap".into());
    }
    if union_p != (w | bl) {
        return Err(format!("union of pieces {:016x} != union of colours {:016x} (ghost piece)", union_p, w | bl));
    }
    for c in [EColor::White, EColor::Black] {
        let n = b.bb(c, King).count_ones();
        if n != 1 {
            return Err(format!("{:?} has {} kings", c, n));
        }
    }
    // placement
    for s in 0..64u8 {
        let e = match (b.get_piece_at(s), b.get_color_at(s)) {
            (Some(k), Some(c)) => Some((ecolor(c), ekind(k))),
            (None, None) => None,
            (a, c) => return Err(format!("square {} inconsistent: piece {:?} colour {:?}", refchess::sq_name(s), a, c)),
        };
        if e != p.sq[s as usize] {
            return Err(format!("square {}: engine {:?} reference {:?}", refchess::sq_name(s), e, p.sq[s as usize]));
        }
    }
    if ecolor(b.active_color()) != p.stm {
        return Err(format!("side to move: engine {:?} reference {:?}", b.active_color(), p.stm));
    }
    let (wk, wq) = b.castling_ability(EColor::White);
    let (bk, bq) = b.castling_ability(EColor::Black);
    if [wk, wq, bk, bq] != p.castle {
        return Err(format!("castling rights: engine {:?} reference {:?}", [wk, wq, bk, bq], p.castle));
    }
    // ep convention: exact when an enemy pawn stands beside the pushed pawn, otherwise the
    // rule-book square or none
    let e = b.en_passant_target;
    if p.ep_has_adjacent_capturer() {
        if e != p.ep {
            return Err(format!("ep target: engine {:?} reference {:?}", e.map(refchess::sq_name), p.ep.map(refchess::sq_name)));
        }
    } else if e.is_some() && e != p.ep {
        return Err(format!("ep target: engine {:?} reference {:?} (or none)", e.map(refchess::sq_name), p.ep.map(refchess::sq_name)));
    }
    Ok(())
}

/// Reads an engine board back into a reference position (public accessors only).
pub fn board_to_pos(b: &Board) -> Pos {
    let mut p = Pos::empty();
    for s in 0..64u8 {
        if let (Some(k), Some(c)) = (b.get_piece_at(s), b.get_color_at(s)) {
            p.sq[s as usize] = Some((ecolor(c), ekind(k)));
        }
    }
    p.stm = ecolor(b.active_color());
    let (wk, wq) = b.castling_ability(EColor::White);
    let (bk, bq) = b.castling_ability(EColor::Black);
    p.castle = [wk, wq, bk, bq];
    p.ep = b.en_passant_target;
    p
}
