//! Enumerated "check geometry" grid: sparse positions in which every kind of checking move occurs
//! on every line of the board — the shapes a sampling generator meets too rarely to rely on.
//!
//! Families (built with White to move; every item is also taken colour-and-rank mirrored, so that
//! Black is the mover on the mirrored squares):
//!   0  one man of the mover (N, B, R, Q or a pawn with 0..2 capturable neighbours, promotions
//!      included) on every square x the enemy king on every square: every direct check, every check
//!      given back through the square the man has just left (promotion on the file / diagonal of the
//!      king behind the pawn);
//!   1  a slider of the mover, the enemy king on every square of each of its lines, and a blocker of
//!      every kind (P N B R Q K) on every square in between: every discovered check by every kind of man;
//!   2  king and rook(s) on their home squares with the rights x the enemy king on every square:
//!      castling that gives check on the file and along the back rank (through the vacated king square);
//!   3  an en-passant capture (every file, both directions) x the enemy king on every square x an own
//!      slider on every square aligned with the capturer's origin or the victim's square (or none):
//!      direct checks and the discoveries by the capturer leaving, by the victim vanishing and by both;
//!   4  an en-passant capture x the mover's king on every square x an enemy slider on every square
//!      aligned with that king: every pin that makes the capture illegal (along the rank through both
//!      pawns, on the file, on either diagonal) and the look-alikes where it stays legal.
//!   6  every absolute pin: an enemy slider, the mover's king on every square of each of its lines and
//!      a man of the mover of every kind (P N B R Q) on every square in between (a pawn gets enemy
//!      men on both squares it could capture on): the pinned man may move along the line only;
//!   7  castling through every kind of attack: king and rook(s) at home with the rights x an enemy
//!      man of every kind (N B R Q P K) on every square, or an own knight on every square of the
//!      back rank: which squares may be attacked or occupied, and by what.
//! A combination that is not a valid position (kings adjacent, the side not to move in check, ...)
//! is skipped and counted.

use refchess::{file_of, rank_of, sq_of, Color, Kind, Pos};

#[derive(Clone, Copy, Debug, PartialEq, Eq, Hash)]
pub struct GridItem {
    pub fam: u8,
    pub a: u8,
    pub b: u8,
    pub c: u8,
    pub d: u8,
    pub mirror: bool,
}

const KINDS5: [Kind; 5] = [Kind::N, Kind::B, Kind::R, Kind::Q, Kind::P];
const SLIDERS: [Kind; 3] = [Kind::B, Kind::R, Kind::Q];
const BLOCKERS: [Kind; 6] = [Kind::P, Kind::N, Kind::B, Kind::R, Kind::Q, Kind::K];
/// squares tried for the king that plays no part in the shape (first one giving a valid position)
const KING_CANDIDATES: [u8; 10] = [0, 7, 56, 63, 4, 60, 24, 31, 27, 36];

fn step_between(a: u8, b: u8) -> Option<(i32, i32, i32)> {
    let (df, dr) = (file_of(b) - file_of(a), rank_of(b) - rank_of(a));
    if a == b {
        return None;
    }
    if df == 0 || dr == 0 || df.abs() == dr.abs() {
        let n = df.abs().max(dr.abs());
        Some((df.signum(), dr.signum(), n))
    } else {
        None
    }
}

fn line_fits(kind: Kind, a: u8, b: u8) -> bool {
    match step_between(a, b) {
        None => false,
        Some((df, dr, _)) => {
            let diag = df != 0 && dr != 0;
            match kind {
                Kind::B => diag,
                Kind::R => !diag,
                Kind::Q => true,
                _ => false,
            }
        }
    }
}

pub fn items() -> Vec<GridItem> {
    let mut v = Vec::new();
    let mut push = |fam: u8, a: u8, b: u8, c: u8, d: u8| {
        for mirror in [false, true] {
            v.push(GridItem { fam, a, b, c, d, mirror });
        }
    };
    // family 0
    for (ki, k) in KINDS5.iter().enumerate() {
        for from in 0..64u8 {
            if *k == Kind::P && (from < 8 || from >= 56) {
                continue;
            }
            for king in 0..64u8 {
                if king == from {
                    continue;
                }
                let variants = if *k == Kind::P { 4 } else { 1 };
                for d in 0..variants {
                    push(0, ki as u8, from, king, d);
                }
            }
        }
    }
    // family 1
    for (si, sk) in SLIDERS.iter().enumerate() {
        for s in 0..64u8 {
            for king in 0..64u8 {
                if !line_fits(*sk, s, king) {
                    continue;
                }
                let (_, _, n) = step_between(s, king).unwrap();
                for step in 1..n {
                    for bi in 0..BLOCKERS.len() {
                        push(1, si as u8, s, king, (bi as u8) * 8 + step as u8);
                    }
                }
            }
        }
    }
    // family 2
    for cfg in 1..=3u8 {
        for king in 0..64u8 {
            push(2, cfg, 0, king, 0);
        }
    }
    // family 6: pins (same line enumeration as family 1, the roles of the colours exchanged)
    for (si, sk) in SLIDERS.iter().enumerate() {
        for s in 0..64u8 {
            for king in 0..64u8 {
                if !line_fits(*sk, s, king) {
                    continue;
                }
                let (_, _, n) = step_between(s, king).unwrap();
                for step in 1..n {
                    for bi in 0..5usize {
                        push(6, si as u8, s, king, (bi as u8) * 8 + step as u8);
                    }
                }
            }
        }
    }
    // family 7: castling with an enemy man of every kind on every square / an own knight on the back rank
    for cfg in 1..=3u8 {
        for kind in 0..7u8 {
            for sq in 0..64u8 {
                if kind == 6 && sq >= 8 {
                    continue;
                }
                push(7, cfg, kind, sq, 0);
            }
        }
    }
    // families 3 and 4
    for vf in 0..8u8 {
        for side in 0..2u8 {
            let cf = vf as i32 + if side == 0 { -1 } else { 1 };
            if !(0..8).contains(&cf) {
                continue;
            }
            let a = vf * 2 + side;
            let origin = sq_of(cf, 4).unwrap();
            let victim = sq_of(vf as i32, 4).unwrap();
            for king in 0..64u8 {
                push(3, a, 0, king, 0);
                for (si, sk) in SLIDERS.iter().enumerate() {
                    for s in 0..64u8 {
                        if s == origin || s == victim || s == king {
                            continue;
                        }
                        if line_fits(*sk, s, origin) || line_fits(*sk, s, victim) {
                            push(3, a, si as u8 + 1, king, s);
                        }
                    }
                }
            }
            for own_king in 0..64u8 {
                for (si, sk) in SLIDERS.iter().enumerate() {
                    for s in 0..64u8 {
                        if s == origin || s == victim || s == own_king {
                            continue;
                        }
                        if line_fits(*sk, s, own_king) {
                            push(4, a, si as u8 + 1, own_king, s);
                        }
                    }
                }
            }
        }
    }
    v
}

fn place(p: &mut Pos, s: u8, m: (Color, Kind)) -> bool {
    if p.sq[s as usize].is_some() {
        return false;
    }
    p.sq[s as usize] = Some(m);
    true
}

/// Adds the king of `c` on the first candidate square that yields a valid position.
fn with_spare_king(p: &Pos, c: Color, rot: usize) -> Option<Pos> {
    for i in 0..KING_CANDIDATES.len() {
        let s = KING_CANDIDATES[(i + rot) % KING_CANDIDATES.len()];
        if p.sq[s as usize].is_some() {
            continue;
        }
        let mut q = p.clone();
        q.sq[s as usize] = Some((c, Kind::K));
        if q.validity().is_ok() {
            return Some(q);
        }
    }
    None
}

pub fn describe(it: &GridItem) -> &'static str {
    match it.fam {
        0 => "grid_single_man_x_enemy_king",
        1 => "grid_slider_blocker_enemy_king",
        2 => "grid_castling_x_enemy_king",
        3 => "grid_en_passant_x_enemy_king_x_own_slider",
        4 => "grid_en_passant_x_own_king_x_enemy_slider",
        6 => "grid_pinned_man_of_every_kind_on_every_line",
        _ => "grid_castling_x_enemy_man_on_every_square",
    }
}

/// The position of an item, or None when the combination is not a valid position.
pub fn build(it: &GridItem) -> Option<Pos> {
    let (w, b) = (Color::W, Color::B);
    let mut p = Pos::empty();
    p.stm = w;
    let rot = (it.b as usize + it.c as usize + it.d as usize) % KING_CANDIDATES.len();
    let q = match it.fam {
        0 => {
            let kind = KINDS5[it.a as usize];
            place(&mut p, it.b, (w, kind));
            if !place(&mut p, it.c, (b, Kind::K)) {
                return None;
            }
            if kind == Kind::P {
                // capturable neighbours in front of the pawn
                for (bit, df) in [(1u8, -1i32), (2u8, 1i32)] {
                    if it.d & bit != 0 {
                        match sq_of(file_of(it.b) + df, rank_of(it.b) + 1) {
                            Some(s) => {
                                if !place(&mut p, s, (b, Kind::N)) {
                                    return None;
                                }
                            }
                            None => return None,
                        }
                    }
                }
            }
            with_spare_king(&p, w, rot)?
        }
        1 => {
            let sk = SLIDERS[it.a as usize];
            let blocker = BLOCKERS[(it.d / 8) as usize];
            let step = (it.d % 8) as i32;
            let (df, dr, n) = step_between(it.b, it.c)?;
            if step < 1 || step >= n {
                return None;
            }
            let x = sq_of(file_of(it.b) + df * step, rank_of(it.b) + dr * step)?;
            if blocker == Kind::P && (x < 8 || x >= 56) {
                return None;
            }
            place(&mut p, it.b, (w, sk));
            place(&mut p, it.c, (b, Kind::K));
            place(&mut p, x, (w, blocker));
            if blocker == Kind::K {
                if p.validity().is_err() {
                    return None;
                }
                p
            } else {
                with_spare_king(&p, w, rot)?
            }
        }
        2 => {
            place(&mut p, 4, (w, Kind::K));
            if it.a & 1 != 0 {
                place(&mut p, 7, (w, Kind::R));
                p.castle[0] = true;
            }
            if it.a & 2 != 0 {
                place(&mut p, 0, (w, Kind::R));
                p.castle[1] = true;
            }
            if !place(&mut p, it.c, (b, Kind::K)) {
                return None;
            }
            if p.validity().is_err() {
                return None;
            }
            p
        }
        3 | 4 => {
            let vf = (it.a / 2) as i32;
            let cf = vf + if it.a % 2 == 0 { -1 } else { 1 };
            let origin = sq_of(cf, 4)?;
            let victim = sq_of(vf, 4)?;
            place(&mut p, origin, (w, Kind::P));
            place(&mut p, victim, (b, Kind::P));
            p.ep = sq_of(vf, 5);
            if it.fam == 3 {
                if !place(&mut p, it.c, (b, Kind::K)) {
                    return None;
                }
                if it.b > 0 && !place(&mut p, it.d, (w, SLIDERS[(it.b - 1) as usize])) {
                    return None;
                }
                with_spare_king(&p, w, rot)?
            } else {
                if !place(&mut p, it.c, (w, Kind::K)) {
                    return None;
                }
                if !place(&mut p, it.d, (b, SLIDERS[(it.b - 1) as usize])) {
                    return None;
                }
                with_spare_king(&p, b, rot)?
            }
        }
        6 => {
            let sk = SLIDERS[it.a as usize];
            let pinned = [Kind::P, Kind::N, Kind::B, Kind::R, Kind::Q][(it.d / 8) as usize % 5];
            let step = (it.d % 8) as i32;
            let (df, dr, n) = step_between(it.b, it.c)?;
            if step < 1 || step >= n {
                return None;
            }
            let x = sq_of(file_of(it.b) + df * step, rank_of(it.b) + dr * step)?;
            if pinned == Kind::P && (x < 8 || x >= 56) {
                return None;
            }
            place(&mut p, it.b, (b, sk));
            place(&mut p, it.c, (w, Kind::K));
            place(&mut p, x, (w, pinned));
            if pinned == Kind::P {
                for df2 in [-1, 1] {
                    if let Some(t) = sq_of(file_of(x) + df2, rank_of(x) + 1) {
                        if p.sq[t as usize].is_none() {
                            p.sq[t as usize] = Some((b, Kind::N));
                            if p.attacked(it.c, b) && !p.man_attacks(it.b, it.c) {
                                // the added knight must not check the king itself
                                p.sq[t as usize] = None;
                            }
                        }
                    }
                }
            }
            with_spare_king(&p, b, rot)?
        }
        7 => {
            place(&mut p, 4, (w, Kind::K));
            if it.a & 1 != 0 {
                place(&mut p, 7, (w, Kind::R));
                p.castle[0] = true;
            }
            if it.a & 2 != 0 {
                place(&mut p, 0, (w, Kind::R));
                p.castle[1] = true;
            }
            let kinds = [Kind::N, Kind::B, Kind::R, Kind::Q, Kind::P, Kind::K];
            if it.b == 6 {
                if !place(&mut p, it.c, (w, Kind::N)) {
                    return None;
                }
                with_spare_king(&p, b, rot)?
            } else {
                let k = kinds[it.b as usize];
                if k == Kind::P && (it.c < 8 || it.c >= 56) {
                    return None;
                }
                if !place(&mut p, it.c, (b, k)) {
                    return None;
                }
                if k == Kind::K {
                    if p.validity().is_err() {
                        return None;
                    }
                    p
                } else {
                    with_spare_king(&p, b, rot)?
                }
            }
        }
        _ => return None,
    };
    if q.validity().is_err() {
        return None;
    }
    Some(if it.mirror { q.mirror() } else { q })
}

/// Rights bookkeeping grid (C02): both kings and all four rooks at home, every subset of the four
/// castling rights, either side to move, and one further man of either colour and every kind on
/// every free square (or none).  Every legal move of every such position is then played: king and
/// rook moves with and without the right, captures of every corner rook by every kind of man
/// (promotion captures from b7/g7/b2/g2 included), castling next to foreign men.
pub fn rights_items() -> Vec<GridItem> {
    let mut v = Vec::new();
    for rights in 0..16u8 {
        for stm in 0..2u8 {
            v.push(GridItem { fam: 5, a: rights, b: 5, c: 0, d: stm, mirror: false });
            for kind in 0..5u8 {
                for colour in 0..2u8 {
                    for s in 0..64u8 {
                        v.push(GridItem { fam: 5, a: rights, b: kind, c: s, d: colour * 2 + stm, mirror: false });
                    }
                }
            }
        }
    }
    v
}

pub fn build_rights(it: &GridItem) -> Option<Pos> {
    let mut p = Pos::empty();
    for (s, m) in [(4u8, (Color::W, Kind::K)), (0, (Color::W, Kind::R)), (7, (Color::W, Kind::R)), (60, (Color::B, Kind::K)), (56, (Color::B, Kind::R)), (63, (Color::B, Kind::R))] {
        p.sq[s as usize] = Some(m);
    }
    for i in 0..4 {
        p.castle[i] = it.a & (1 << i) != 0;
    }
    p.stm = if it.d & 1 == 0 { Color::W } else { Color::B };
    if it.b < 5 {
        let kind = KINDS5[it.b as usize];
        if kind == Kind::P && (it.c < 8 || it.c >= 56) {
            return None;
        }
        let c = if it.d & 2 == 0 { Color::W } else { Color::B };
        if !place(&mut p, it.c, (c, kind)) {
            return None;
        }
    }
    if p.validity().is_err() {
        return None;
    }
    Some(p)
}

/// `p` with one more man of the side NOT to move (a would-be defender: blocker or capturer of a
/// checking man), kind and square derived from the item; None if that is not a valid position.
pub fn with_defender(it: &GridItem, p: &Pos) -> Option<Pos> {
    let h = crate::stats::hash_of(it);
    let kinds = [Kind::N, Kind::B, Kind::R, Kind::Q, Kind::P];
    let kind = kinds[(h % 5) as usize];
    let start = ((h >> 8) % 64) as u8;
    for i in 0..64u8 {
        let s = (start + i) % 64;
        if p.sq[s as usize].is_some() || (kind == Kind::P && (s < 8 || s >= 56)) {
            continue;
        }
        let mut q = p.clone();
        q.sq[s as usize] = Some((p.stm.other(), kind));
        if q.validity().is_ok() {
            return Some(q);
        }
        if i > 8 {
            break;
        }
    }
    None
}
