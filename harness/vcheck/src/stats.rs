//! Per-run measurement: what was generated, how much of it was non-trivial, what it looked like.

use serde_json::{json, Value};
use std::collections::hash_map::DefaultHasher;
use std::collections::{BTreeMap, HashSet};
use std::hash::{Hash, Hasher};

pub fn hash_of<T: Hash>(t: &T) -> u64 {
    // DefaultHasher::new() uses fixed keys: deterministic across runs.
    let mut h = DefaultHasher::new();
    t.hash(&mut h);
    h.finish()
}

#[derive(Default)]
pub struct Stats {
    pub evaluations: u64,
    pub nontrivial: HashSet<u64>,
    pub classes: BTreeMap<String, u64>,
    pub excluded: BTreeMap<String, u64>,
    pub maxima: BTreeMap<String, i64>,
    pub first_samples: Vec<Value>,
    pub reservoir: Vec<(u64, Value)>,
    pub known: BTreeMap<String, (u64, Value)>,
    pub sample_counter: u64,
    /// set once a failure was found: the closure re-runs during shrinking and must not count
    pub frozen: bool,
}

const FIRST: usize = 3;
const RES: usize = 5;

impl Stats {
    pub fn new() -> Self {
        Self::default()
    }
    pub fn eval(&mut self) {
        if !self.frozen {
            self.evaluations += 1;
        }
    }
    pub fn evals(&mut self, n: u64) {
        if !self.frozen {
            self.evaluations += n;
        }
    }
    pub fn nontrivial<T: Hash>(&mut self, key: &T) {
        if !self.frozen {
            self.nontrivial.insert(hash_of(key));
        }
    }
    pub fn class(&mut self, name: &str) {
        if !self.frozen {
            *self.classes.entry(name.to_string()).or_insert(0) += 1;
        }
    }
    pub fn class_n(&mut self, name: &str, n: u64) {
        if !self.frozen {
            *self.classes.entry(name.to_string()).or_insert(0) += n;
        }
    }
    pub fn exclude(&mut self, reason: &str) {
        if !self.frozen {
            *self.excluded.entry(reason.to_string()).or_insert(0) += 1;
        }
    }
    pub fn maximum(&mut self, name: &str, v: i64) {
        if !self.frozen {
            let e = self.maxima.entry(name.to_string()).or_insert(i64::MIN);
            if v > *e {
                *e = v;
            }
        }
    }
    /// Lazily records a sample: the first few, plus a deterministic reservoir (keyed by a hash
    /// of the running counter, so no RNG of our own is involved).
    pub fn sample<F: FnOnce() -> Value>(&mut self, f: F) {
        if self.frozen {
            return;
        }
        self.sample_counter += 1;
        if self.first_samples.len() < FIRST {
            self.first_samples.push(f());
            return;
        }
        let key = hash_of(&(self.sample_counter, 0x9e3779b97f4a7c15u64));
        if self.reservoir.len() < RES {
            self.reservoir.push((key, f()));
            self.reservoir.sort_by_key(|x| x.0);
        } else if key < self.reservoir[RES - 1].0 {
            self.reservoir[RES - 1] = (key, f());
            self.reservoir.sort_by_key(|x| x.0);
        }
    }
    pub fn known_finding(&mut self, sig: &str, example: Value) {
        let e = self.known.entry(sig.to_string()).or_insert((0, example));
        e.0 += 1;
    }

    pub fn merge(&mut self, o: Stats) {
        self.evaluations += o.evaluations;
        self.nontrivial.extend(o.nontrivial);
        for (k, v) in o.classes {
            *self.classes.entry(k).or_insert(0) += v;
        }
        for (k, v) in o.excluded {
            *self.excluded.entry(k).or_insert(0) += v;
        }
        for (k, v) in o.maxima {
            let e = self.maxima.entry(k).or_insert(i64::MIN);
            if v > *e {
                *e = v;
            }
        }
        for s in o.first_samples {
            if self.first_samples.len() < FIRST {
                self.first_samples.push(s);
            } else {
                self.reservoir.push((hash_of(&s.to_string()), s));
            }
        }
        self.reservoir.extend(o.reservoir);
        self.reservoir.sort_by_key(|x| x.0);
        self.reservoir.truncate(RES);
        for (k, (n, ex)) in o.known {
            let e = self.known.entry(k).or_insert((0, ex));
            e.0 += n;
        }
        self.sample_counter += o.sample_counter;
    }

    pub fn samples(&self) -> Vec<Value> {
        let mut v = self.first_samples.clone();
        v.extend(self.reservoir.iter().map(|x| x.1.clone()));
        v
    }

    pub fn coverage_json(&self, rule: &str) -> Value {
        json!({
            "evaluations": self.evaluations,
            "distinct_nontrivial": self.nontrivial.len(),
            "rule": rule,
            "samples": self.samples(),
            "classes": self.classes,
            "excluded": self.excluded,
            "maxima": self.maxima,
            "known_findings_matched": self.known.iter().map(|(k,(n,ex))| json!({"signature":k,"count":n,"example":ex})).collect::<Vec<_>>(),
        })
    }
}
