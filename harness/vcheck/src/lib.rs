//! vcheck — property-based checks of Flounder (see /verif/DESIGN.md).
//!
//!   vcheck <ID> quick|thorough        run the check, write evidence/<ID>.json
//!   vcheck <ID> --replay <file>       re-run one saved case through the oracle (no proptest)
//!
//! Exit 0: held on everything explored.  Exit 1 + "VIOLATION property=<ID> replay=<path>".
//! Exit 2: the harness could not decide (never reported as a violation).

pub mod blackbox;
pub mod eng;
pub mod gen;
pub mod grid;
pub mod props;
pub mod refsearch;
pub mod runner;
pub mod script;
pub mod src;
pub mod stats;

use runner::{FoundFailure, Known, Verdict};
use serde_json::{json, Value};
use std::io::Write;
use std::sync::Mutex;
use std::time::Instant;

static OUT: Mutex<Option<std::fs::File>> = Mutex::new(None);

pub fn out_line(s: &str) {
    let mut g = OUT.lock().unwrap();
    if let Some(f) = g.as_mut() {
        let _ = writeln!(f, "{}", s);
        let _ = f.flush();
    }
}

#[macro_export]
macro_rules! out {
    ($($arg:tt)*) => { $crate::out_line(&format!($($arg)*)) };
}

pub fn verif_dir() -> String {
    std::env::var("VERIF_DIR").unwrap_or_else(|_| "/verif".to_string())
}

/// Where evidence and replay files are written (default: the verif directory itself; runs
/// against a scratch copy of the repository point this elsewhere).
pub fn out_dir() -> String {
    std::env::var("VERIF_OUT").unwrap_or_else(|_| verif_dir())
}

thread_local! {
    pub static LAST_PANIC: std::cell::RefCell<String> = std::cell::RefCell::new(String::new());
}

pub fn panic_text(p: &Box<dyn std::any::Any + Send>) -> String {
    if let Some(s) = p.downcast_ref::<&str>() {
        s.to_string()
    } else if let Some(s) = p.downcast_ref::<String>() {
        s.clone()
    } else {
        LAST_PANIC.with(|l| l.borrow().clone())
    }
}

/// The engine prints `info` lines (and FEN error messages) to fd 1 from inside library calls:
/// keep our own stdout on another descriptor and point fd 1 at /dev/null for the whole run.
pub fn redirect_stdout() {
    unsafe {
        let saved = libc::dup(1);
        // children (the engine processes of the black-box driver) must not inherit it
        libc::fcntl(saved, libc::F_SETFD, libc::FD_CLOEXEC);
        let devnull = libc::open(b"/dev/null\0".as_ptr() as *const libc::c_char, libc::O_WRONLY);
        libc::dup2(devnull, 1);
        libc::close(devnull);
        use std::os::unix::io::FromRawFd;
        *OUT.lock().unwrap() = Some(std::fs::File::from_raw_fd(saved));
    }
}

/// Called at the top of every libFuzzer iteration (cheap after the first): engine output goes to
/// /dev/null, and the panic hook libfuzzer-sys installs (which aborts the process on ANY panic,
/// including the ones the oracles catch on purpose: node watchdog, known engine panics) is replaced
/// by the harness's quiet hook.  A violation still ends the process: the target panics outside any
/// catch_unwind and libfuzzer-sys aborts when the panic reaches its wrapper.
pub fn fuzz_init() {
    static ONCE: std::sync::Once = std::sync::Once::new();
    ONCE.call_once(|| {
        redirect_stdout();
        std::panic::set_hook(Box::new(|info| {
            let msg = info.to_string();
            LAST_PANIC.with(|l| *l.borrow_mut() = msg);
        }));
    });
}

#[derive(Clone, Copy, PartialEq, Eq, Debug)]
pub enum Tier {
    Quick,
    Thorough,
}
impl Tier {
    pub fn name(self) -> &'static str {
        match self {
            Tier::Quick => "quick",
            Tier::Thorough => "thorough",
        }
    }
    pub fn pick<T>(self, q: T, t: T) -> T {
        match self {
            Tier::Quick => q,
            Tier::Thorough => t,
        }
    }
}

pub struct PropRun {
    pub stats: stats::Stats,
    pub rule: String,
    pub level: &'static str,
    pub failure: Option<FoundFailure>,
    pub extra: serde_json::Map<String, Value>,
    pub assumptions: Vec<String>,
    pub exhaustive: bool,
    /// the harness could not decide (build/driver problem): exit 2
    pub inconclusive: Option<String>,
}

impl PropRun {
    pub fn new(level: &'static str, rule: &str) -> PropRun {
        PropRun {
            stats: stats::Stats::new(),
            rule: rule.to_string(),
            level,
            failure: None,
            extra: serde_json::Map::new(),
            assumptions: Vec::new(),
            exhaustive: false,
            inconclusive: None,
        }
    }
}

fn write_replay(id: &str, seed: u64, tier: &str, f: &FoundFailure) -> String {
    let dir = format!("{}/work/replay", out_dir());
    let _ = std::fs::create_dir_all(&dir);
    let path = format!("{}/{}-{}-{}-{}.json", dir, id, tier, seed, f.part);
    let v = json!({
        "property": id,
        "part": f.part,
        "signature": f.failure.sig,
        "bytes_hex": runner::hex(&f.bytes),
        "case": f.failure.detail,
        "found_by": format!("vcheck {} {} worker {}", id, tier, f.worker),
        "seed": seed,
    });
    std::fs::write(&path, serde_json::to_string_pretty(&v).unwrap()).unwrap();
    path
}

fn replay_file(id: &str, path: &str) -> Result<Verdict, String> {
    let text = std::fs::read_to_string(path).map_err(|e| format!("cannot read {}: {}", path, e))?;
    let v: Value = serde_json::from_str(&text).map_err(|e| format!("bad json {}: {}", path, e))?;
    let part = v["part"].as_str().unwrap_or("").to_string();
    let bytes = runner::unhex(v["bytes_hex"].as_str().unwrap_or(""));
    let r = std::panic::catch_unwind(std::panic::AssertUnwindSafe(|| {
        if part == "fuzz" {
            props::replay_fuzz_bytes(id, &bytes)
        } else {
            props::replay(id, &part, &bytes, &v["case"])
        }
    }));
    match r {
        Ok(v) => Ok(v),
        Err(p) => Err(format!("harness panic in replay: {}", panic_text(&p))),
    }
}

/// Runs `f` on a helper thread and waits at most `secs` for it.  A call that does not come back
/// cannot be stopped from inside the process: the run then ends at once as INCONCLUSIVE (exit 2),
/// with `what` (the case) printed — never as a violation, never as a hang.
pub fn run_with_deadline<T: Send + 'static, F: FnOnce() -> T + Send + 'static>(secs: u64, what: String, f: F) -> T {
    let (tx, rx) = std::sync::mpsc::channel();
    std::thread::Builder::new()
        .stack_size(256 << 20)
        .spawn(move || {
            let r = std::panic::catch_unwind(std::panic::AssertUnwindSafe(f));
            let _ = tx.send(r);
        })
        .unwrap();
    match rx.recv_timeout(std::time::Duration::from_secs(secs)) {
        Ok(Ok(v)) => v,
        Ok(Err(p)) => std::panic::resume_unwind(p),
        Err(_) => {
            out!("INCONCLUSIVE: a call into the engine did not return within {} s: {}", secs, what);
            std::process::exit(2);
        }
    }
}

pub fn main_entry() {
    let args: Vec<String> = std::env::args().collect();
    if args.len() < 3 {
        eprintln!("usage: vcheck <ID> quick|thorough | vcheck <ID> --replay <file>");
        std::process::exit(2);
    }
    redirect_stdout();
    std::panic::set_hook(Box::new(|info| {
        let msg = info.to_string();
        LAST_PANIC.with(|l| *l.borrow_mut() = msg);
    }));
    let id = args[1].to_uppercase();
    let seed: u64 = std::env::var("VERIF_SEED").ok().and_then(|s| s.parse().ok()).unwrap_or(20260929);
    let known = Known::load(&id);

    if args[2] == "--replay" {
        let path = args.get(3).cloned().unwrap_or_default();
        match replay_file(&id, &path) {
            Ok(Ok(())) => {
                out!("OK property={} replay={}", id, path);
                std::process::exit(0);
            }
            Ok(Err(f)) => {
                if let Some(what) = known.matches(&f.sig) {
                    out!("KNOWN-FINDING: property={} {}", id, what);
                    std::process::exit(0);
                }
                out!("signature: {}", f.sig);
                out!("{}", serde_json::to_string_pretty(&f.detail).unwrap());
                out!("VIOLATION property={} replay={}", id, path);
                std::process::exit(1);
            }
            Err(e) => {
                out!("INCONCLUSIVE: {}", e);
                std::process::exit(2);
            }
        }
    }

    let tier = match args[2].as_str() {
        "quick" => Tier::Quick,
        "thorough" => Tier::Thorough,
        other => {
            eprintln!("unknown tier {}", other);
            std::process::exit(2);
        }
    };
    let t0 = Instant::now();

    // the oracle must be trustworthy before anything is judged with it
    if let Err(e) = refchess::self_test(tier == Tier::Thorough) {
        out!("INCONCLUSIVE: reference self-test failed: {}", e);
        std::process::exit(2);
    }

    if let Err(e) = gen::validate_pool() {
        out!("INCONCLUSIVE: {}", e);
        std::process::exit(2);
    }

    // replay tier: every shrunk failure ever found (incl. deliberate-breakage ones)
    let mut regress_run = 0;
    let reg_dir = format!("{}/regress/{}", verif_dir(), id);
    let mut violation: Option<String> = None;
    let mut known_printed: Vec<String> = Vec::new();
    if let Ok(rd) = std::fs::read_dir(&reg_dir) {
        let mut files: Vec<String> = rd.filter_map(|e| e.ok()).map(|e| e.path().to_string_lossy().to_string()).filter(|p| p.ends_with(".json")).collect();
        files.sort();
        for f in files {
            regress_run += 1;
            match replay_file(&id, &f) {
                Ok(Ok(())) => {}
                Ok(Err(fl)) => {
                    if let Some(what) = known.matches(&fl.sig) {
                        if !known_printed.contains(&fl.sig) {
                            out!("KNOWN-FINDING: property={} {}", id, what);
                            known_printed.push(fl.sig.clone());
                        }
                    } else if violation.is_none() {
                        out!("regression case failed: {} signature {}", f, fl.sig);
                        out!("{}", serde_json::to_string_pretty(&fl.detail).unwrap());
                        violation = Some(f.clone());
                    }
                }
                Err(e) => {
                    out!("INCONCLUSIVE: {}", e);
                    std::process::exit(2);
                }
            }
        }
    }

    // last-resort watchdog: a case that never returns (an endless loop outside anything the node
    // watchdog counts) ends the run as INCONCLUSIVE with the case saved — never as a violation,
    // never as a hang
    {
        let id = id.clone();
        let limit: u64 = std::env::var("VERIF_CASE_TIMEOUT").ok().and_then(|s| s.parse().ok()).unwrap_or(if tier == Tier::Quick { 420 } else { 1500 });
        std::thread::spawn(move || loop {
            std::thread::sleep(std::time::Duration::from_secs(2));
            let stuck = runner::IN_FLIGHT.lock().ok().and_then(|g| g.iter().find(|e| e.3.elapsed().as_secs() > limit).map(|e| (e.1.clone(), e.2.clone())));
            if let Some((part, bytes)) = stuck {
                let dir = format!("{}/work/replay", out_dir());
                let _ = std::fs::create_dir_all(&dir);
                let path = format!("{}/{}-stuck-{}.json", dir, id, part.replace('#', "-"));
                let _ = std::fs::write(&path, serde_json::to_string_pretty(&json!({"property": id, "part": part, "signature": "harness-case-did-not-return", "bytes_hex": runner::hex(&bytes), "case": {"note": "the case was still running when the watchdog fired"}})).unwrap());
                out!("INCONCLUSIVE: a case of part '{}' did not return within {} s; saved as {}", part, limit, path);
                std::process::exit(2);
            }
        });
    }
    let mut run = props::run(&id, tier, seed, &known);
    let wall = t0.elapsed().as_secs_f64();

    // evidence
    let mut cov = run.stats.coverage_json(&run.rule);
    {
        let m = cov.as_object_mut().unwrap();
        m.insert("regression_cases_replayed".into(), json!(regress_run));
        if run.exhaustive {
            m.insert("exhaustive".into(), json!(true));
        }
        for (k, v) in std::mem::take(&mut run.extra) {
            m.insert(k, v);
        }
    }
    let n_viol = (run.failure.is_some() as i64) + (violation.is_some() as i64);
    let ev = json!({
        "property_id": id,
        "tier": tier.name(),
        "seed": seed,
        "level": run.level,
        "coverage": cov,
        "assumptions": run.assumptions,
        "wall_s": wall,
        "violations": n_viol,
    });
    let ev_dir = format!("{}/evidence", out_dir());
    let _ = std::fs::create_dir_all(&ev_dir);
    std::fs::write(format!("{}/{}.json", ev_dir, id), serde_json::to_string_pretty(&ev).unwrap()).unwrap();

    for (sig, (n, _)) in run.stats.known.iter() {
        if !known_printed.contains(sig) {
            out!("KNOWN-FINDING: property={} {} [{} cases this run]", id, known.matches(sig).unwrap_or(sig), n);
        }
    }
    out!(
        "{} {}: evaluations={} distinct_nontrivial={} wall={:.1}s",
        id,
        tier.name(),
        run.stats.evaluations,
        run.stats.nontrivial.len(),
        wall
    );
    if let Some(why) = &run.inconclusive {
        out!("INCONCLUSIVE: {}", why);
        std::process::exit(2);
    }
    if let Some(f) = &run.failure {
        let path = write_replay(&id, seed, tier.name(), f);
        if f.failure.sig.starts_with("harness-") {
            // the harness contradicted itself (generator or reference problem): not a verdict
            out!("signature: {}", f.failure.sig);
            out!("{}", serde_json::to_string_pretty(&f.failure.detail).unwrap());
            out!("INCONCLUSIVE: harness self-check failed, case saved as {}", path);
            std::process::exit(2);
        }
        out!("signature: {}", f.failure.sig);
        out!("{}", serde_json::to_string_pretty(&f.failure.detail).unwrap());
        out!("VIOLATION property={} replay={}", id, path);
        std::process::exit(1);
    }
    if let Some(path) = violation {
        out!("VIOLATION property={} replay={}", id, path);
        std::process::exit(1);
    }
    std::process::exit(0);
}
