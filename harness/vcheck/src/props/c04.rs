//! C04 — position command reconstructs the exact game position.

use crate::eng;
use crate::gen;
use crate::props::threads;
use crate::runner::{run_part, Failure, Known, Part, Verdict};
use crate::src::Src;
use crate::stats::Stats;
use crate::{PropRun, Tier};
use flsrc::uci::Flounder;
use refchess::Pos;
use serde_json::{json, Value};
use std::cell::RefCell;

pub const RULE: &str = "histories of 1..4 position commands sent to one engine (fresh per case) through the real handle_command (hook verif_handle_command), with ucinewgame / isready lines between them in 30% of the steps, and 30% of the later commands being the previous command word for word or continued by 1..3 further moves (as a GUI restates a game); each is 'startpos' or a six-field FEN written by the reference from a valid generated position with counters a real game can reach (fullmove 1..6000 weighted to 1, two-digit, 200..300 and four-digit values; halfmove clock 0..150 but never more than the plies played so far, 0 after a double push, and exactly on that bound in a quarter of the cases), followed by 'moves' and a reference-legal playout of 0..250 plies in UCI notation (castling as king move, promotions with piece letter); whitespace varied as the protocol allows. A quarter of the commands that follow a game with a promotion are that game with one promotion made to ANOTHER piece (same squares, another letter), continued by 0..2 moves. Enumerated parts: 'grid-moves' (positions of the check-geometry and castling-rights grids followed by ONE move: every castle, en-passant capture, promotion letter, double push and corner capture of the position; quick tier a seed-dependent share) and 'castle-lookalikes' (moves spelt e1g1/e1c1/e8g8/e8c8/e1h1/e1a1/e8h8/e8a8 made by a rook or queen on e1/e8 with the mover's king at home with every subset of its rights, or away). Part 'long-games': games of 500..900 plies from the start position in which no position occurs twice (over 512 distinct positions), given as one position command (a call that does not return within 90 s ends the run as inconclusive). Oracle: engine board (hook verif_board) after EVERY command == reference position after the playout (placement, side, rights, ep convention, bitboard consistency); no panic. Non-trivial = a FEN that is not the start position and/or a move list containing a castle, ep capture or promotion; distinct by command text.";

thread_local! {
    static ENGINE: RefCell<Option<Flounder>> = RefCell::new(None);
}

fn fullmove(s: &mut Src) -> u32 {
    match s.below(8) {
        0 | 1 => 1,
        2 => 2 + s.below(98) as u32,
        3 => 200 + s.below(101) as u32,
        4 => 254 + s.below(4) as u32,
        5 => 1000 + s.below(5000) as u32,
        6 => 100 + s.below(156) as u32,
        _ => 1 + s.below(6000) as u32,
    }
}

fn sep(s: &mut Src) -> &'static str {
    match s.below(16) {
        0 => "  ",
        1 => "\t",
        2 => " \t ",
        _ => " ",
    }
}

pub struct PosCmd {
    pub text: String,
    pub expected: Pos,
    pub history: Vec<Pos>,
    pub nontrivial: bool,
    pub fullmove: u32,
    pub special_moves: usize,
}

/// One generated position command together with the reference's idea of the result.
pub fn gen_position_cmd(s: &mut Src, max_plies: usize, small: bool) -> PosCmd {
    let use_startpos = s.chance(30);
    let (start, mut text, full) = if use_startpos {
        (Pos::startpos(), format!("position{}startpos", sep(s)), 1)
    } else {
        let p = if small { gen::g_small(s).0 } else { gen::g_mix(s).0 };
        let half = s.below(151) as u32;
        let full = fullmove(s);
        let (half, full) = gen::reachable_counters(s, &p, half, full);
        let fen = p.fen(half, full);
        let mut t = format!("position{}fen", sep(s));
        for field in fen.split(' ') {
            t.push_str(sep(s));
            t.push_str(field);
        }
        (p, t, full)
    };
    let n = if s.chance(25) { 0 } else { gen::ply_count(s, max_plies) };
    let (steps, last) = gen::playout(s, &start, n);
    let mut special = 0;
    if !steps.is_empty() {
        text.push_str(sep(s));
        text.push_str("moves");
        for (p, m) in &steps {
            text.push_str(sep(s));
            text.push_str(&m.uci());
            let i = p.info(*m);
            if i.castle || i.ep || i.promo {
                special += 1;
            }
        }
    }
    if s.chance(10) {
        text.push_str(" ");
    }
    let mut history: Vec<Pos> = steps.iter().map(|x| x.0.clone()).collect();
    history.push(last.clone());
    PosCmd { text, expected: last, history, nontrivial: !use_startpos && start != Pos::startpos() || special > 0, fullmove: full, special_moves: special }
}

/// The previous command again, word for word or continued by further legal moves (a GUI restates
/// the whole game with every position command).
fn extend_cmd(s: &mut Src, prev: &PosCmd) -> PosCmd {
    let k = s.below(4);
    let (steps, last) = gen::playout(s, &prev.expected, k);
    let mut text = prev.text.trim_end().to_string();
    let mut special = prev.special_moves;
    let mut has_moves = text.split_whitespace().any(|t| t == "moves");
    for (p, m) in &steps {
        if !has_moves {
            text.push_str(" moves");
            has_moves = true;
        }
        text.push(' ');
        text.push_str(&m.uci());
        let i = p.info(*m);
        if i.castle || i.ep || i.promo {
            special += 1;
        }
    }
    let mut history = prev.history.clone();
    history.pop();
    history.extend(steps.iter().map(|x| x.0.clone()));
    history.push(last.clone());
    PosCmd { text, expected: last, history, nontrivial: prev.nontrivial || special > 0, fullmove: prev.fullmove, special_moves: special }
}

/// The previous game up to one of its promotions, that promotion made to ANOTHER piece (same from
/// and to squares, another letter), then continued by 0..2 legal moves: a different game that shares
/// a long prefix — and every from/to pair — with the one the engine was given last.
fn relettered_cmd(s: &mut Src, prev: &PosCmd) -> Option<PosCmd> {
    let toks: Vec<&str> = prev.text.split_whitespace().collect();
    let mi = toks.iter().position(|t| *t == "moves")?;
    let promos: Vec<usize> = (mi + 1..toks.len()).filter(|i| toks[*i].len() == 5).collect();
    if promos.is_empty() {
        return None;
    }
    let at = promos[s.below(promos.len())];
    let old = toks[at].as_bytes()[4] as char;
    let letters: Vec<char> = ['q', 'r', 'b', 'n'].into_iter().filter(|c| *c != old).collect();
    let new_tok = format!("{}{}", &toks[at][..4], letters[s.below(3)]);
    let mut text = toks[..at].join(" ");
    text.push(' ');
    text.push_str(&new_tok);
    let hist = crate::script::ref_position(&text).ok()?;
    let last = hist.last()?.clone();
    let k = s.below(3);
    let (steps, end) = gen::playout(s, &last, k);
    for (_, m) in &steps {
        text.push(' ');
        text.push_str(&m.uci());
    }
    let mut history = hist.clone();
    history.pop();
    history.push(last);
    history.extend(steps.iter().skip(1).map(|x| x.0.clone()));
    if !steps.is_empty() {
        history.push(end.clone());
    }
    Some(PosCmd { text, expected: end, history, nontrivial: true, fullmove: prev.fullmove, special_moves: prev.special_moves })
}

fn check(bytes: &[u8], stats: &mut Stats) -> Verdict {
    let mut s = Src::new(bytes);
    let ncmds = 1 + s.below(4);
    let mut sent: Vec<String> = Vec::new();
    let mut prev: Option<PosCmd> = None;
    // a fresh engine per case: a failure must reproduce from the saved case alone
    ENGINE.with(|e| *e.borrow_mut() = None);
    for _ in 0..ncmds {
        // other commands between two position commands must not matter
        let between = match s.below(10) {
            0 | 1 => Some("ucinewgame"),
            2 => Some("isready"),
            _ => None,
        };
        let relettered = match &prev {
            Some(pc) if pc.special_moves > 0 && s.chance(25) => relettered_cmd(&mut s, pc),
            _ => None,
        };
        let c = match &prev {
            _ if relettered.is_some() => {
                stats.class("previous_game_with_one_promotion_made_to_another_piece");
                relettered.unwrap()
            }
            Some(pc) if s.chance(30) => {
                stats.class("previous_command_repeated_or_continued");
                if between == Some("ucinewgame") {
                    stats.class("previous_command_repeated_or_continued_after_ucinewgame");
                }
                extend_cmd(&mut s, pc)
            }
            _ => gen_position_cmd(&mut s, 250, false),
        };
        if let Some(b) = between {
            sent.push(b.to_string());
        }
        sent.push(c.text.clone());
        let res = ENGINE.with(|e| {
            let mut e = e.borrow_mut();
            if e.is_none() {
                *e = Some(Flounder::new());
            }
            let fl = e.as_mut().unwrap();
            let r = std::panic::catch_unwind(std::panic::AssertUnwindSafe(|| {
                if let Some(b) = between {
                    fl.verif_handle_command(b);
                }
                fl.verif_handle_command(&c.text);
                *fl.verif_board()
            }));
            if r.is_err() {
                *e = None;
            }
            r
        });
        stats.eval();
        let board = match res {
            Ok(b) => b,
            Err(p) => {
                let msg = crate::panic_text(&p);
                let sig = if msg.contains("fullmove counter") && c.fullmove > 255 { "fullmove-counter-above-255-panic" } else { "position-command-panic" };
                return Err(Failure::new(sig, json!({"commands": sent, "panic": msg, "fullmove": c.fullmove})));
            }
        };
        if let Err(why) = eng::compare_board(&board, &c.expected) {
            return Err(Failure::new("wrong-position", json!({"commands": sent, "expected": c.expected.fen4(), "engine": eng::board_to_pos(&board).fen4(), "why": why})));
        }
        if c.nontrivial {
            stats.nontrivial(&c.text);
        }
        if c.special_moves > 0 {
            stats.class("moves_with_castle_ep_or_promotion");
        }
        if c.fullmove > 255 {
            stats.class("fullmove_above_255");
        }
        stats.class(if c.text.contains("startpos") { "startpos" } else { "fen" });
        stats.sample(|| json!({"command": if c.text.len() > 400 { format!("{}…", &c.text[..400]) } else { c.text.clone() }, "result": c.expected.fen4()}));
        prev = Some(c);
    }
    Ok(())
}

pub fn fuzz_entry(bytes: &[u8]) -> Verdict {
    let mut st = Stats::new();
    check(bytes, &mut st)
}

/// Enumerated part 'grid-moves': positions of the check-geometry grid and of the castling-rights
/// bookkeeping grid (grid.rs), given to the position command as a FEN followed by ONE move — every
/// castle, en-passant capture, promotion (all four letters), double push and capture of a corner
/// rook of the position, plus its first ordinary move — in UCI text: the move list parser and the
/// successor meet every special move on every file.  A fresh engine per item; the commands of one item are sent to it in a row.
fn judge_grid(it: &crate::grid::GridItem, stats: &mut Stats) -> Verdict {
    let built = if it.fam == 5 { crate::grid::build_rights(it) } else { crate::grid::build(it) };
    let Some(p) = built else {
        stats.exclude("grid combination that is not a valid position");
        return Ok(());
    };
    let mut moves: Vec<refchess::Mv> = Vec::new();
    let mut ordinary = false;
    for m in p.legal_moves() {
        let i = p.info(m);
        let special = i.castle || i.ep || i.promo || i.double_push || (i.capture && matches!(m.to, 0 | 7 | 56 | 63));
        if special {
            moves.push(m);
        } else if !ordinary {
            ordinary = true;
            moves.push(m);
        }
    }
    let h = crate::stats::hash_of(it);
    let (half, full) = [(0u32, 1u32), (0, 1), (3, 40), (99, 120), (100, 300), (7, 4000)][(h % 6) as usize];
    let plies = 2 * (full - 1) + if p.stm == refchess::Color::B { 1 } else { 0 };
    let half = if p.ep.is_some() { 0 } else { half.min(plies) };
    let fen = p.fen(half, full);
    // a fresh engine per item (a failure must reproduce from the commands saved with it); the
    // commands of one item go to that engine in a row: same FEN, one move each, promotion siblings
    // next to each other
    ENGINE.with(|e| *e.borrow_mut() = None);
    let mut sent: Vec<String> = Vec::new();
    for m in moves {
        let text = format!("position fen {} moves {}", fen, m.uci());
        sent.push(text.clone());
        let expected = p.make(m);
        let res = ENGINE.with(|e| {
            let mut e = e.borrow_mut();
            if e.is_none() {
                *e = Some(Flounder::new());
            }
            let fl = e.as_mut().unwrap();
            let r = std::panic::catch_unwind(std::panic::AssertUnwindSafe(|| {
                fl.verif_handle_command(&text);
                *fl.verif_board()
            }));
            if r.is_err() {
                *e = None;
            }
            r
        });
        stats.eval();
        let board = match res {
            Ok(b) => b,
            Err(pn) => return Err(Failure::new("position-command-panic", json!({"commands": sent, "panic": crate::panic_text(&pn)}))),
        };
        if let Err(why) = eng::compare_board(&board, &expected) {
            return Err(Failure::new("wrong-position", json!({"commands": sent, "expected": expected.fen4(), "engine": eng::board_to_pos(&board).fen4(), "why": why})));
        }
        let i = p.info(m);
        stats.class(if i.castle { "grid_move_castle" } else if i.ep { "grid_move_en_passant" } else if i.promo { "grid_move_promotion" } else if i.double_push { "grid_move_double_push" } else if i.capture { "grid_move_capture" } else { "grid_move_ordinary" });
        if i.castle || i.ep || i.promo {
            stats.nontrivial(&text);
        }
    }
    Ok(())
}

/// Enumerated 'castle look-alikes': moves whose UCI text is that of a castle (e1g1 e1c1 e8g8 e8c8)
/// or of the 'king takes rook' spelling some interfaces use (e1h1 e1a1 e8h8 e8a8), made by a ROOK or
/// QUEEN standing on e1/e8 — the mover's own king elsewhere at home with every subset of its rights,
/// or away from home — with and without an enemy man on the target square.
fn castle_lookalikes() -> Vec<(Pos, refchess::Mv)> {
    use refchess::{Color, Kind, Mv};
    let mut out = Vec::new();
    for mirrored in [false, true] {
        for kind in [Kind::R, Kind::Q] {
            for from in [4u8, 60u8] {
                for tf in [0u8, 2, 6, 7] {
                    for rights in 0..4u8 {
                        for target in 0..2 {
                            for own_king_home in [true, false] {
                                let mut p = Pos::empty();
                                p.stm = Color::W;
                                // the white king: at home on e1 (then the piece stands on e8), or away
                                let king_sq = if own_king_home { 4u8 } else { 22u8 };
                                if own_king_home && from == 4 {
                                    continue;
                                }
                                if !own_king_home && rights != 0 {
                                    continue;
                                }
                                p.sq[king_sq as usize] = Some((Color::W, Kind::K));
                                if own_king_home {
                                    p.sq[7] = Some((Color::W, Kind::R));
                                    p.sq[0] = Some((Color::W, Kind::R));
                                    p.castle[0] = rights & 1 != 0;
                                    p.castle[1] = rights & 2 != 0;
                                }
                                p.sq[from as usize] = Some((Color::W, kind));
                                let to = (from / 8) * 8 + tf;
                                if p.sq[to as usize].is_some() {
                                    continue;
                                }
                                if target == 1 {
                                    p.sq[to as usize] = Some((Color::B, Kind::N));
                                }
                                // the black king somewhere it is not attacked
                                let mut placed = false;
                                for bk in [41u8, 46, 33, 38, 25, 30, 49, 54] {
                                    if p.sq[bk as usize].is_some() {
                                        continue;
                                    }
                                    let mut q = p.clone();
                                    q.sq[bk as usize] = Some((Color::B, Kind::K));
                                    if q.is_valid() {
                                        p = q;
                                        placed = true;
                                        break;
                                    }
                                }
                                if !placed {
                                    continue;
                                }
                                let m = Mv { from, to, promo: None };
                                if !p.legal_moves().contains(&m) {
                                    continue;
                                }
                                if mirrored {
                                    out.push((p.mirror(), Mv { from: from ^ 56, to: to ^ 56, promo: None }));
                                } else {
                                    out.push((p, m));
                                }
                            }
                        }
                    }
                }
            }
        }
    }
    out
}

fn judge_lookalike(item: &(Pos, refchess::Mv), stats: &mut Stats) -> Verdict {
    let (p, m) = item;
    let text = format!("position fen {} moves {}", p.fen(0, 1), m.uci());
    let expected = p.make(*m);
    let mut fl = Flounder::new();
    let r = std::panic::catch_unwind(std::panic::AssertUnwindSafe(|| {
        fl.verif_handle_command(&text);
        *fl.verif_board()
    }));
    stats.eval();
    let board = match r {
        Ok(b) => b,
        Err(pn) => return Err(Failure::new("position-command-panic", json!({"commands": [text], "panic": crate::panic_text(&pn)}))),
    };
    if let Err(why) = eng::compare_board(&board, &expected) {
        return Err(Failure::new("wrong-position", json!({"commands": [text], "expected": expected.fen4(), "engine": eng::board_to_pos(&board).fen4(), "why": why})));
    }
    stats.class("castle_lookalike_moves_by_rook_or_queen");
    stats.nontrivial(&text);
    Ok(())
}

/// Part 'long-games': "move sequences of any length" — games of 520..900 plies from the start
/// position in which no position occurs twice (more than 512 distinct positions in the history the
/// position command records), every prefix length a GUI would send near the end included.
fn check_long_game(bytes: &[u8], stats: &mut Stats) -> Verdict {
    let mut s = Src::new(bytes);
    let want = *s.pick(&[500usize, 511, 512, 513, 520, 600, 700, 900]);
    let (moves, last, distinct) = gen::long_game(&mut s, want);
    let text = format!("position startpos moves {}", moves.iter().map(|m| m.uci()).collect::<Vec<_>>().join(" "));
    let text2 = text.clone();
    let board = crate::run_with_deadline(90, format!("position command with a game of {} plies (case saved in the evidence samples)", moves.len()), move || {
        let mut fl = Flounder::new();
        let r = std::panic::catch_unwind(std::panic::AssertUnwindSafe(|| {
            fl.verif_handle_command(&text2);
            *fl.verif_board()
        }));
        r.map_err(|p| crate::panic_text(&p))
    });
    stats.eval();
    let board = match board {
        Ok(b) => b,
        Err(msg) => return Err(Failure::new("position-command-panic", json!({"commands": [text], "panic": msg}))),
    };
    if let Err(why) = eng::compare_board(&board, &last) {
        return Err(Failure::new("wrong-position", json!({"commands": [text], "expected": last.fen4(), "engine": eng::board_to_pos(&board).fen4(), "why": why})));
    }
    stats.class("long_games");
    if distinct > 512 {
        stats.class("long_games_with_more_than_512_distinct_positions");
        stats.nontrivial(&text);
    }
    stats.maximum("longest_game_plies", moves.len() as i64);
    stats.maximum("most_distinct_positions_in_a_game", distinct as i64);
    Ok(())
}

pub fn run(tier: Tier, seed: u64, known: &Known) -> PropRun {
    let mut run = PropRun::new("exploration", RULE);
    run.assumptions = vec![
        "halfmove clock <= 150 and fullmove number <= 6000 bound what a real game can reach".into(),
        "lines end in LF, tokens separated by spaces/tabs; only valid FENs and legal move lists are generated".into(),
    ];
    // enumerated part first (quick tier: a seed-dependent share of the grids; thorough: all)
    {
        let mut items = crate::grid::rights_items();
        items.extend(crate::grid::items());
        let share: u64 = tier.pick(48, 1);
        let items: Vec<crate::grid::GridItem> = items.into_iter().filter(|it| (crate::stats::hash_of(it) ^ seed) % (if it.fam == 5 || it.fam == 2 || it.fam == 7 { share / 8 + 1 } else { share }) == 0).collect();
        run.stats.class_n("grid_items_taken", items.len() as u64);
        let (st, fl) = crate::runner::run_enumerated("grid-moves", &items, threads(), seed, known, |it, st| judge_grid(it, st));
        run.stats.merge(st);
        if fl.is_some() {
            run.failure = fl;
            return run;
        }
    }
    {
        let items = castle_lookalikes();
        run.stats.class_n("castle_lookalikes_enumerated", items.len() as u64);
        let (st, fl) = crate::runner::run_enumerated("castle-lookalikes", &items, threads(), seed, known, |it, st| judge_lookalike(it, st));
        run.stats.merge(st);
        if fl.is_some() {
            run.failure = fl;
            return run;
        }
    }
    {
        let part = Part { name: "long-games", cases: tier.pick(48, 1_000), min_len: 600, max_len: 1200, max_shrink: 0, threads: threads() };
        let (st, fl) = run_part(&part, seed, known, check_long_game);
        run.stats.merge(st);
        if fl.is_some() {
            run.failure = fl;
            return run;
        }
    }
    let part = Part { name: "commands", cases: tier.pick(8_000, 400_000), min_len: 16, max_len: 900, max_shrink: 600, threads: threads() };
    let (st, fl) = run_part(&part, seed, known, check);
    run.stats.merge(st);
    run.failure = fl;
    run
}

/// Structural replay: the saved command lines through a fresh engine; the reference reads the
/// same lines; the board is compared after every position command.
fn replay_commands(cmds: &[Value], stats: &mut Stats) -> Verdict {
    let mut fl = Flounder::new();
    let mut sent: Vec<String> = Vec::new();
    for c in cmds {
        let Some(text) = c.as_str() else { continue };
        sent.push(text.to_string());
        let r = std::panic::catch_unwind(std::panic::AssertUnwindSafe(|| {
            fl.verif_handle_command(text);
            *fl.verif_board()
        }));
        stats.eval();
        let board = match r {
            Ok(b) => b,
            Err(p) => {
                let msg = crate::panic_text(&p);
                let full: u32 = text.split_whitespace().nth(7).and_then(|x| x.parse().ok()).unwrap_or(0);
                let sig = if msg.contains("fullmove counter") && full > 255 { "fullmove-counter-above-255-panic" } else { "position-command-panic" };
                return Err(Failure::new(sig, json!({"commands": sent, "panic": msg, "fullmove": full})));
            }
        };
        if text.split_whitespace().next() != Some("position") {
            continue;
        }
        let expected = crate::script::ref_position(text).map_err(|e| Failure::new("harness-bad-replay-file", json!({"error": e})))?.pop().unwrap();
        if let Err(why) = eng::compare_board(&board, &expected) {
            return Err(Failure::new("wrong-position", json!({"commands": sent, "expected": expected.fen4(), "engine": eng::board_to_pos(&board).fen4(), "why": why})));
        }
    }
    Ok(())
}

pub fn replay(_part: &str, bytes: &[u8], case: &Value, stats: &mut Stats) -> Verdict {
    if let Some(c) = case.get("commands").and_then(|x| x.as_array()) {
        return replay_commands(c, stats);
    }
    check(bytes, stats)
}
