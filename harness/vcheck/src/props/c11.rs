//! C11 — position hash depends on the position and nothing else.

use crate::eng;
use crate::gen;
use crate::props::{guarded, threads};
use crate::runner::{run_part, Failure, Known, Part, Verdict};
use crate::src::Src;
use crate::stats::Stats;
use crate::{PropRun, Tier};
use flsrc::board::Board;
use flsrc::pieces::{Color as EColor, Piece};
use flsrc::zobrist::ZobristTable;
use refchess::{Color, Kind, Mv, Pos};
use serde_json::{json, Value};
use std::cell::RefCell;

pub const RULE: &str = "(i) same position by different routes: two interleavings of commuting legal moves (a·b·c·d vs c·b·a·d / c·d·a·b / a·d·c·b), used only when the reference says the end positions are equal; the same position by FEN and by play; same four fields with different counters -> hashes must be EQUAL. (ii) single-component flips — and in a third of the cases accumulated flips of two or more components (e.g. one castling right exchanged for another) — through the public Board API (add/remove/recolour/retype one man, side to move, each castling right, ep None<->Some(s), Some(s)<->Some(t)) -> hashes must DIFFER. (iii) population: >=10^4 distinct positions per pool; within a key draw two positions share a hash iff they are the same position. (iv) ENUMERATED part 'component-pairs': for every pair of components (a man of a kind and colour on a square, one castling right, one en-passant square, the side to move; 789 components, ~300 000 pairs) two valid positions that differ in exactly those two components -> hashes must DIFFER (two components sharing a key are invisible to single flips). (v) part 'marathon': ONE table per case, 40 000 (400 000 thorough) distinct positions with ever new pawn structures hashed on it, every seventh step an earlier one again, at the end all of them again -> each position keeps its first value. All under K independent ZobristTable::new() draws per worker thread (8 quick / 64 thorough). Non-trivial: (i) routes differ in >=2 visited positions, (ii) any flip, (iii) pool >= 10^4; distinct by FEN pair / (FEN, component).";

thread_local! {
    static TABLES: RefCell<Vec<ZobristTable>> = RefCell::new(Vec::new());
    static KDRAWS: RefCell<usize> = RefCell::new(8);
}

fn with_tables<R>(f: impl FnOnce(&[ZobristTable]) -> R) -> R {
    TABLES.with(|t| {
        let mut t = t.borrow_mut();
        let k = KDRAWS.with(|k| *k.borrow());
        while t.len() < k {
            t.push(ZobristTable::new());
        }
        f(&t)
    })
}

fn hashes(b: &Board) -> Vec<u64> {
    with_tables(|ts| ts.iter().map(|z| z.hash(b)).collect())
}

fn play_engine(start: &Pos, moves: &[Mv]) -> Result<Board, Failure> {
    let g = eng::mg();
    let mut b = guarded("Board::new", || eng::to_board(start))?;
    for m in moves {
        let uci = m.uci();
        let em = guarded("generate_moves", || eng::find_engine_move(&g, &b, &uci))?.ok_or_else(|| Failure::new("harness-move-missing", json!({"move": uci})))?;
        guarded("make_move", || b.make_move(&em))?;
    }
    Ok(b)
}

fn play_ref(start: &Pos, moves: &[Mv]) -> Option<(Pos, Vec<Pos>)> {
    let mut p = start.clone();
    let mut visited = Vec::new();
    for m in moves {
        if !p.legal_moves().contains(m) {
            return None;
        }
        p = p.make(*m);
        visited.push(p.clone());
    }
    Some((p, visited))
}

fn fresh_draw_recheck(eq_expected: bool, a: &Board, b: &Board) -> usize {
    // re-check a failing pair under 8 fresh draws: a structural defect fails in all of them
    let mut failed = 0;
    for _ in 0..8 {
        let z = ZobristTable::new();
        let same = z.hash(a) == z.hash(b);
        if same != eq_expected {
            failed += 1;
        }
    }
    failed
}

fn part_routes(bytes: &[u8], stats: &mut Stats) -> Verdict {
    let mut s = Src::new(bytes);
    let (p, _) = gen::g_mix(&mut s);
    stats.eval();
    // candidate four-move sequence a b c d
    let la = p.legal_moves();
    if la.is_empty() {
        stats.exclude("terminal position");
        return Ok(());
    }
    let quietish = |pos: &Pos, m: &Mv| {
        let i = pos.info(*m);
        !i.capture && !i.castle && !i.promo && !i.double_push
    };
    let pick = |s: &mut Src, pos: &Pos, avoid_from: Option<u8>, avoid_to: Option<u8>| -> Option<Mv> {
        let ms: Vec<Mv> = pos.legal_moves().into_iter().filter(|m| quietish(pos, m) && Some(m.from) != avoid_to && Some(m.from) != avoid_from).collect();
        if ms.is_empty() {
            None
        } else {
            Some(ms[s.below(ms.len())])
        }
    };
    let Some(a) = pick(&mut s, &p, None, None) else {
        stats.exclude("no commuting move");
        return Ok(());
    };
    let p1 = p.make(a);
    let Some(b) = pick(&mut s, &p1, None, None) else {
        stats.exclude("no commuting move");
        return Ok(());
    };
    let p2 = p1.make(b);
    let Some(c) = pick(&mut s, &p2, Some(a.from), Some(a.to)) else {
        stats.exclude("no commuting move");
        return Ok(());
    };
    let p3 = p2.make(c);
    let Some(d) = pick(&mut s, &p3, Some(b.from), Some(b.to)) else {
        stats.exclude("no commuting move");
        return Ok(());
    };
    let route1 = [a, b, c, d];
    let alts = [[c, b, a, d], [c, d, a, b], [a, d, c, b]];
    let (end1, vis1) = play_ref(&p, &route1).unwrap();
    let b1 = play_engine(&p, &route1)?;
    let h1 = hashes(&b1);
    // same position set up by FEN, with different counters
    let half = s.below(100) as u32;
    let full = 1 + s.below(200) as u32;
    let (half, full) = gen::reachable_counters(&mut s, &end1, half, full);
    let bf = guarded("Board::new", || Board::new(&end1.fen(half, full)))?;
    let hf = hashes(&bf);
    let ep_comparable = end1.ep.is_none() || true;
    if ep_comparable && hf != h1 {
        let n = fresh_draw_recheck(true, &b1, &bf);
        return Err(Failure::new(
            "same-position-different-hash",
            json!({"how": "by play vs by FEN with counters", "start": p.fen(0,1), "moves": route1.iter().map(|m| m.uci()).collect::<Vec<_>>(), "fen": end1.fen(half, full), "fresh_draws_failed_of_8": n}),
        ));
    }
    let mut used = 0;
    for alt in alts.iter() {
        let Some((end2, vis2)) = play_ref(&p, alt) else { continue };
        if end2 != end1 {
            continue;
        }
        used += 1;
        let b2 = play_engine(&p, alt)?;
        let h2 = hashes(&b2);
        stats.eval();
        if h2 != h1 {
            let n = fresh_draw_recheck(true, &b1, &b2);
            return Err(Failure::new(
                "same-position-different-hash",
                json!({"how": "two move orders", "start": p.fen(0,1), "route1": route1.iter().map(|m| m.uci()).collect::<Vec<_>>(), "route2": alt.iter().map(|m| m.uci()).collect::<Vec<_>>(), "end": end1.fen4(), "fresh_draws_failed_of_8": n}),
            ));
        }
        let differing = vis1.iter().zip(vis2.iter()).filter(|(x, y)| x != y).count();
        if differing >= 2 {
            stats.nontrivial(&(p.fen4(), route1.iter().map(|m| m.uci()).collect::<Vec<_>>(), alt.iter().map(|m| m.uci()).collect::<Vec<_>>()));
        }
    }
    if used == 0 {
        stats.exclude("no alternative order transposes");
    } else {
        stats.class("transposition_pairs");
        stats.sample(|| json!({"start": p.fen4(), "route": route1.iter().map(|m| m.uci()).collect::<Vec<_>>(), "alternatives_equal": used}));
    }
    Ok(())
}

fn epiece(k: Kind) -> Piece {
    match k {
        Kind::P => Piece::Pawn,
        Kind::N => Piece::Knight,
        Kind::B => Piece::Bishop,
        Kind::R => Piece::Rook,
        Kind::Q => Piece::Queen,
        Kind::K => Piece::King,
    }
}
fn ecol(c: Color) -> EColor {
    match c {
        Color::W => EColor::White,
        Color::B => EColor::Black,
    }
}

fn part_flips(bytes: &[u8], stats: &mut Stats) -> Verdict {
    let mut s = Src::new(bytes);
    let (p, _) = gen::g_mix(&mut s);
    let b0 = guarded("Board::new", || eng::to_board(&p))?;
    let h0 = hashes(&b0);
    let nflips = 1 + s.below(24);
    // a third of the cases accumulate their flips (two or three components differ at once:
    // e.g. king-side right exchanged for the queen-side right); the accumulated board is judged
    // whenever it is a different position from the original
    let accumulate = s.chance(33);
    let mut acc = b0;
    let mut acc_what: Vec<String> = Vec::new();
    for _ in 0..nflips {
        let mut b = if accumulate { acc } else { b0 };
        let what: String;
        match s.below(9) {
            0 | 1 => {
                // add a man on an empty square
                let sq = s.below(64) as u8;
                if eng::board_to_pos(&b).sq[sq as usize].is_some() {
                    continue;
                }
                let k = *s.pick(&[Kind::P, Kind::N, Kind::B, Kind::R, Kind::Q, Kind::K]);
                let c = if s.bool() { Color::W } else { Color::B };
                b.add_piece(ecol(c), epiece(k), sq);
                what = format!("add {:?}{:?}@{}", c, k, refchess::sq_name(sq));
            }
            2 => {
                // remove a man
                let cur = eng::board_to_pos(&b);
                let occ: Vec<u8> = (0..64u8).filter(|q| cur.sq[*q as usize].is_some()).collect();
                if occ.is_empty() {
                    continue;
                }
                let sq = occ[s.below(occ.len())];
                let (c, k) = cur.sq[sq as usize].unwrap();
                b.remove_piece(ecol(c), epiece(k), sq);
                what = format!("remove {}", refchess::sq_name(sq));
            }
            3 => {
                // recolour
                let cur = eng::board_to_pos(&b);
                let occ: Vec<u8> = (0..64u8).filter(|q| cur.sq[*q as usize].is_some()).collect();
                if occ.is_empty() {
                    continue;
                }
                let sq = occ[s.below(occ.len())];
                let (c, k) = cur.sq[sq as usize].unwrap();
                b.remove_piece(ecol(c), epiece(k), sq);
                b.add_piece(ecol(c.other()), epiece(k), sq);
                what = format!("recolour {}", refchess::sq_name(sq));
            }
            4 => {
                // retype
                let cur = eng::board_to_pos(&b);
                let occ: Vec<u8> = (0..64u8).filter(|q| cur.sq[*q as usize].is_some()).collect();
                if occ.is_empty() {
                    continue;
                }
                let sq = occ[s.below(occ.len())];
                let (c, k) = cur.sq[sq as usize].unwrap();
                let others: Vec<Kind> = [Kind::P, Kind::N, Kind::B, Kind::R, Kind::Q, Kind::K].into_iter().filter(|x| *x != k).collect();
                let nk = others[s.below(others.len())];
                b.remove_piece(ecol(c), epiece(k), sq);
                b.add_piece(ecol(c), epiece(nk), sq);
                what = format!("retype {} -> {:?}", refchess::sq_name(sq), nk);
            }
            5 => {
                b.change_color();
                what = "side to move".into();
            }
            6 => {
                let i = s.below(4);
                let ch = ['K', 'Q', 'k', 'q'][i];
                let now = eng::board_to_pos(&b).castle[i];
                b.castling_ability.set(ch, !now);
                what = format!("castling right {}", ch);
            }
            _ => {
                // ep: None <-> Some(s), Some(s) <-> Some(t) over the sixteen ep squares
                let cands: Vec<u8> = (16..24u8).chain(40..48u8).collect();
                let t = cands[s.below(16)];
                let new = match b.en_passant_target {
                    Some(e) if e == t || s.chance(30) => None,
                    _ => Some(t),
                };
                if new == b.en_passant_target {
                    continue;
                }
                what = format!("ep {:?} -> {:?}", b.en_passant_target.map(refchess::sq_name), new.map(refchess::sq_name));
                b.en_passant_target = new;
            }
        }
        let what = if accumulate {
            acc = b;
            acc_what.push(what);
            if eng::board_to_pos(&b) == eng::board_to_pos(&b0) {
                // the flips cancelled out: the same position again (equality is the routes part's business)
                continue;
            }
            if acc_what.len() >= 2 {
                stats.class("flips_accumulated_two_or_more_components");
            }
            acc_what.join(" + ")
        } else {
            what
        };
        let h = hashes(&b);
        stats.eval();
        let cls = what.split(' ').next().unwrap_or("flip").to_string();
        stats.class(&format!("flip_{}", cls));
        stats.nontrivial(&(p.fen4(), what.clone()));
        for (i, (x, y)) in h.iter().zip(h0.iter()).enumerate() {
            if x == y {
                let n = fresh_draw_recheck(false, &b0, &b);
                return Err(Failure::new("different-position-same-hash", json!({"fen": p.fen(0,1), "flip": what, "key_draw": i, "fresh_draws_failed_of_8": n})));
            }
        }
        stats.sample(|| json!({"fen": p.fen4(), "flip": what}));
        // the hash is a function of the board: the original board hashed again, right after a
        // look-alike, still has its original hash (under every key draw)
        if hashes(&b0) != h0 {
            return Err(Failure::new("same-position-different-hash", json!({"how": "the same board hashed again after other boards", "fen": p.fen(0,1), "hashed_in_between": what})));
        }
    }
    Ok(())
}

fn part_pool(bytes: &[u8], stats: &mut Stats) -> Verdict {
    let mut s = Src::new(bytes);
    let target = 10_000usize;
    let mut pool: Vec<(Pos, Vec<u64>)> = Vec::with_capacity(target + 400);
    let g = eng::mg();
    let mut guard = 0;
    while pool.len() < target && guard < 4000 {
        guard += 1;
        let start = if s.chance(60) { gen::pool_pos(s.below(gen::POOL.len())) } else { gen::g_mix(&mut s).0 };
        let n = 20 + s.below(150);
        let (steps, last) = gen::playout(&mut s, &start, n);
        let mut b = guarded("Board::new", || eng::to_board(&start))?;
        for (p, m) in &steps {
            pool.push((p.clone(), hashes(&b)));
            let em = guarded("generate_moves", || eng::find_engine_move(&g, &b, &m.uci()))?.ok_or_else(|| Failure::new("harness-move-missing", json!({"move": m.uci()})))?;
            b.make_move(&em);
        }
        pool.push((last, hashes(&b)));
    }
    let k = pool[0].1.len();
    stats.evals(pool.len() as u64);
    for d in 0..k {
        let mut idx: Vec<usize> = (0..pool.len()).collect();
        idx.sort_by_key(|i| pool[*i].1[d]);
        for w in idx.windows(2) {
            let (a, b) = (&pool[w[0]], &pool[w[1]]);
            if a.1[d] == b.1[d] && a.0 != b.0 {
                return Err(Failure::new("different-position-same-hash", json!({"how": "population", "a": a.0.fen4(), "b": b.0.fen4(), "key_draw": d})));
            }
        }
        // and the converse: same position => same hash
        let mut by_pos: Vec<usize> = (0..pool.len()).collect();
        by_pos.sort_by_key(|i| pool[*i].0.fen4());
        for w in by_pos.windows(2) {
            let (a, b) = (&pool[w[0]], &pool[w[1]]);
            if a.0 == b.0 && a.1[d] != b.1[d] {
                return Err(Failure::new("same-position-different-hash", json!({"how": "population", "fen": a.0.fen4(), "key_draw": d})));
            }
        }
    }
    let mut fens: Vec<String> = pool.iter().map(|x| x.0.fen4()).collect();
    fens.sort();
    fens.dedup();
    stats.class_n("pool_distinct_positions", fens.len() as u64);
    if fens.len() >= 5_000 {
        stats.nontrivial(&(fens[0].clone(), fens[fens.len() / 2].clone(), fens.len()));
    }
    stats.sample(|| json!({"pool_size": pool.len(), "distinct": fens.len(), "key_draws": k}));
    Ok(())
}

/// One component of a position, as the statement lists them.
#[derive(Clone, Copy, Debug, PartialEq, Eq)]
enum Comp {
    Man(Color, Kind, u8),
    Right(usize),
    Ep(u8),
    Side,
}

fn all_components() -> Vec<Comp> {
    let mut v = Vec::new();
    for c in [Color::W, Color::B] {
        for k in [Kind::P, Kind::N, Kind::B, Kind::R, Kind::Q, Kind::K] {
            for s in 0..64u8 {
                if k == Kind::P && (s < 8 || s >= 56) {
                    continue;
                }
                v.push(Comp::Man(c, k, s));
            }
        }
    }
    for i in 0..4 {
        v.push(Comp::Right(i));
    }
    for f in 0..8u8 {
        v.push(Comp::Ep(16 + f)); // rank 3: white has just pushed, black to move
        v.push(Comp::Ep(40 + f)); // rank 6
    }
    v.push(Comp::Side);
    v
}

/// Two valid positions that differ in exactly the two components `x` and `y` (each position has
/// one of them, everything else is common), or None when no such pair of valid positions is found
/// among the tried frames (kings on candidate squares, the men a right or an ep square needs).
fn pair_for(x: Comp, y: Comp) -> Option<(Pos, Pos)> {
    let is_king = |c: &Comp| matches!(c, Comp::Man(_, Kind::K, _));
    // kings pair only with a king of the same colour on another square
    if is_king(&x) || is_king(&y) {
        let (Comp::Man(cx, Kind::K, sx), Comp::Man(cy, Kind::K, sy)) = (x, y) else { return None };
        if cx != cy || sx == sy {
            return None;
        }
        for other in [0u8, 7, 56, 63, 27, 36] {
            if other == sx || other == sy {
                continue;
            }
            let mk = |s: u8| {
                let mut p = Pos::empty();
                p.sq[s as usize] = Some((cx, Kind::K));
                p.sq[other as usize] = Some((cx.other(), Kind::K));
                p
            };
            let (a, b) = (mk(sx), mk(sy));
            if a.is_valid() && b.is_valid() {
                return Some((a, b));
            }
        }
        return None;
    }
    // common frame: what the components need to be meaningful
    let needs = |c: &Comp, p: &mut Pos| -> bool {
        match c {
            Comp::Right(i) => {
                let (ks, rs, col) = [(4u8, 7u8, Color::W), (4, 0, Color::W), (60, 63, Color::B), (60, 56, Color::B)][*i];
                for (s, m) in [(ks, (col, Kind::K)), (rs, (col, Kind::R))] {
                    match p.sq[s as usize] {
                        None => p.sq[s as usize] = Some(m),
                        Some(q) if q == m => {}
                        _ => return false,
                    }
                }
                true
            }
            Comp::Ep(e) => {
                // the pushed pawn in front of the ep square, the squares behind it empty
                let white_pushed = *e < 32;
                let pawn = if white_pushed { e + 8 } else { e - 8 };
                let col = if white_pushed { Color::W } else { Color::B };
                match p.sq[pawn as usize] {
                    None => p.sq[pawn as usize] = Some((col, Kind::P)),
                    Some(q) if q == (col, Kind::P) => {}
                    _ => return false,
                }
                let origin = if white_pushed { e - 8 } else { e + 8 };
                p.sq[*e as usize].is_none() && p.sq[origin as usize].is_none()
            }
            _ => true,
        }
    };
    let apply = |c: &Comp, p: &mut Pos| -> bool {
        match c {
            Comp::Man(col, k, s) => {
                if p.sq[*s as usize].is_some() {
                    return false;
                }
                p.sq[*s as usize] = Some((*col, *k));
                true
            }
            Comp::Right(i) => {
                p.castle[*i] = true;
                true
            }
            Comp::Ep(e) => {
                p.ep = Some(*e);
                true
            }
            Comp::Side => {
                p.stm = p.stm.other();
                true
            }
        }
    };
    // side to move of the frame: an ep square fixes it
    let stm_for = |c: &Comp| match c {
        Comp::Ep(e) => Some(if *e < 32 { Color::B } else { Color::W }),
        _ => None,
    };
    let king_frames: [(u8, u8); 8] = [(0, 63), (7, 56), (63, 0), (56, 7), (4, 60), (24, 39), (2, 61), (31, 32)];
    for (wk, bk) in king_frames {
        for frame_stm in [Color::W, Color::B] {
            let mut f = Pos::empty();
            f.stm = frame_stm;
            let mut ok = needs(&x, &mut f) && needs(&y, &mut f);
            // kings: the ones a right has put on the board, else the frame's
            if ok {
                if f.king_sq(Color::W).is_none() {
                    if f.sq[wk as usize].is_some() {
                        ok = false;
                    } else {
                        f.sq[wk as usize] = Some((Color::W, Kind::K));
                    }
                }
                if ok && f.king_sq(Color::B).is_none() {
                    if f.sq[bk as usize].is_some() {
                        ok = false;
                    } else {
                        f.sq[bk as usize] = Some((Color::B, Kind::K));
                    }
                }
            }
            if !ok {
                continue;
            }
            // an ep component puts its side to move on ITS position only when the other component
            // is the side itself; otherwise both positions have the side the ep square demands
            let (mut a, mut b) = (f.clone(), f.clone());
            match (stm_for(&x), stm_for(&y), x == Comp::Side || y == Comp::Side) {
                (Some(s1), Some(s2), _) if s1 != s2 => continue,
                (Some(s1), _, false) | (_, Some(s1), false) => {
                    a.stm = s1;
                    b.stm = s1;
                }
                (Some(s1), _, true) => {
                    // x = ep (side s1), y = side: a has the ep square, b is the frame with the other side
                    a.stm = s1;
                    b.stm = s1; // Side flips b below
                }
                (_, Some(s2), true) => {
                    a.stm = s2;
                    b.stm = s2;
                }
                _ => {}
            }
            if !apply(&x, &mut a) || !apply(&y, &mut b) {
                continue;
            }
            if a != b && a.is_valid() && b.is_valid() {
                return Some((a, b));
            }
        }
    }
    None
}

/// Enumerated part 'component-pairs': for EVERY pair of components (a man of a kind and colour on a
/// square, one castling right, one en-passant square, the side to move) two valid positions that
/// differ in exactly those two; their hashes must differ under every key draw.  Two components that
/// share a key are invisible to single-component flips; this is the direct test of it.
fn judge_component_row(i: usize, comps: &[Comp], stats: &mut Stats) -> Verdict {
    let x = comps[i];
    for y in comps.iter().skip(i + 1) {
        let Some((a, b)) = pair_for(x, *y) else {
            stats.exclude("component pair without a pair of valid positions in the tried frames");
            continue;
        };
        eng::set_counter_wish(0, 1);
        let (ba, bb) = (guarded("Board::new", || eng::to_board(&a))?, guarded("Board::new", || eng::to_board(&b))?);
        stats.eval();
        let (ha, hb) = (hashes(&ba), hashes(&bb));
        if ha.iter().zip(hb.iter()).any(|(p, q)| p == q) {
            let n = fresh_draw_recheck(false, &ba, &bb);
            return Err(Failure::new(
                "different-position-same-hash",
                json!({"components": [format!("{:?}", x), format!("{:?}", y)], "position_a": a.fen4(), "position_b": b.fen4(), "fresh_draws_failed_of_8": n, "replay": {"pair": [a.fen(0, 1), b.fen(0, 1)]}}),
            ));
        }
        stats.class(match (x, y) {
            (Comp::Man(..), Comp::Man(..)) => "component_pairs_man_x_man",
            (Comp::Man(..), _) | (_, Comp::Man(..)) => "component_pairs_man_x_right_ep_or_side",
            _ => "component_pairs_among_rights_ep_side",
        });
        stats.nontrivial(&(a.fen4(), b.fen4()));
    }
    Ok(())
}

thread_local! {
    static MARATHON_N: std::cell::Cell<u64> = std::cell::Cell::new(40_000);
}

/// Part 'marathon' — ONE table per case (so a failure reproduces from the case alone), tens of
/// thousands of distinct positions with ever new pawn structures hashed on it; every seventh step
/// an EARLIER position is hashed again, and at the end all of them once more: the value a table
/// gives for a position must not depend on what it hashed in between ("nothing else").
fn judge_marathon(salt: u64, n: u64, stats: &mut Stats) -> Verdict {
    let z = ZobristTable::new();
    let mut boards: Vec<Board> = Vec::new();
    let mut hashes: Vec<u64> = Vec::new();
    eng::set_counter_wish(0, 1);
    let fail = |i: usize, first: u64, later: u64, b: &Board, at: u64| {
        Failure::new("same-position-different-hash", json!({"how": "the same position hashed again later on the same table", "fen": eng::board_to_pos(b).fen4(), "first_hash": format!("{:016x}", first), "later_hash": format!("{:016x}", later), "index_in_marathon": i, "positions_hashed_before_the_second_time": at, "replay": {"marathon_salt": format!("{:016x}", salt), "n": n}}))
    };
    for i in 0..n {
        let Some(p) = crate::props::c14::marathon_position(salt, i) else { continue };
        let b = eng::to_board(&p);
        let h = z.hash(&b);
        boards.push(b);
        hashes.push(h);
        stats.eval();
        if i % 7 == 3 && boards.len() > 1 {
            let j = (crate::stats::hash_of(&(salt, i)) % (boards.len() as u64 - 1)) as usize;
            let again = z.hash(&boards[j]);
            if again != hashes[j] {
                return Err(fail(j, hashes[j], again, &boards[j], i));
            }
        }
    }
    for (j, b) in boards.iter().enumerate() {
        let again = z.hash(b);
        if again != hashes[j] {
            return Err(fail(j, hashes[j], again, b, n));
        }
    }
    stats.class("marathons_on_one_table");
    stats.maximum("marathon_positions_hashed_on_one_table", boards.len() as i64);
    stats.nontrivial(&(salt, n));
    Ok(())
}

fn part_marathon(bytes: &[u8], stats: &mut Stats) -> Verdict {
    let mut s = Src::new(bytes);
    let salt = s.u64();
    judge_marathon(salt, MARATHON_N.with(|c| c.get()), stats)
}

pub fn run(tier: Tier, seed: u64, known: &Known) -> PropRun {
    let mut run = PropRun::new("exploration", RULE);
    run.assumptions = vec![
        "Zobrist keys come from thread_rng() and cannot be seeded: verdicts (not key values) are a function of VERIF_SEED; an 'unequal' verdict can be wrong with probability 2^-64 per comparison".into(),
        "'same position' = placement + side + four rights + ep field exactly as Board holds it; counters are not part of it".into(),
    ];
    let kd = tier.pick(8usize, 64usize);
    let set_k = move || KDRAWS.with(|k| *k.borrow_mut() = kd);
    run.extra.insert("key_draws_per_worker".into(), json!(kd));
    let parts: [(&str, u64, usize, fn(&[u8], &mut Stats) -> Verdict); 3] = [
        ("routes", tier.pick(60_000, 400_000), 200, part_routes),
        ("flips", tier.pick(80_000, 500_000), 260, part_flips),
        ("pool", tier.pick(16, 160), 60_000, part_pool),
    ];
    // first the part that gives every case its own table (what a table keeps between calls is
    // found there reproducibly; the later parts share tables between cases)
    {
        let n = tier.pick(40_000u64, 400_000u64);
        let part = Part { name: "marathon", cases: tier.pick(16, 64), min_len: 8, max_len: 16, max_shrink: 4, threads: threads() };
        let (st, fail) = run_part(&part, seed, known, |b, st| {
            MARATHON_N.with(|c| c.set(n));
            part_marathon(b, st)
        });
        run.stats.merge(st);
        if fail.is_some() {
            run.failure = fail;
            return run;
        }
    }
    // enumerated part first: every pair of components
    {
        let comps = all_components();
        let rows: Vec<usize> = (0..comps.len()).collect();
        run.stats.class_n("components_enumerated", comps.len() as u64);
        let (st, fail) = crate::runner::run_enumerated("component-pairs", &rows, threads(), seed, known, |i, st| {
            set_k();
            judge_component_row(*i, &comps, st)
        });
        run.stats.merge(st);
        if fail.is_some() {
            run.failure = fail;
            return run;
        }
    }
    for (name, cases, max_len, f) in parts {
        let part = Part { name, cases, min_len: if name == "pool" { 20_000 } else { 8 }, max_len, max_shrink: if name == "pool" { 64 } else { 3000 }, threads: threads() };
        let (st, fail) = run_part(&part, seed, known, |b, st| {
            set_k();
            f(b, st)
        });
        run.stats.merge(st);
        if fail.is_some() {
            run.failure = fail;
            break;
        }
    }
    run
}

pub fn fuzz_entry(bytes: &[u8]) -> Verdict {
    let mut st = Stats::new();
    part_routes(bytes, &mut st)?;
    part_flips(bytes, &mut st)
}

/// Structural replay of a routes case: start position + moves, compared with the same position
/// from a FEN (with its counters) or reached by another move order.
fn replay_routes(case: &Value) -> Option<Verdict> {
    let start = Pos::from_fen(case.get("start")?.as_str()?).ok()?.0;
    let mvs = |k: &str| -> Option<Vec<Mv>> {
        let mut p = start.clone();
        let mut out = Vec::new();
        for t in case.get(k)?.as_array()? {
            let m = p.find_uci(t.as_str()?)?;
            p = p.make(m);
            out.push(m);
        }
        Some(out)
    };
    let run = |a: &Board, b: &Board, how: &str| -> Verdict {
        if hashes(a) != hashes(b) {
            let n = fresh_draw_recheck(true, a, b);
            return Err(Failure::new("same-position-different-hash", json!({"how": how, "start": case["start"], "fresh_draws_failed_of_8": n})));
        }
        Ok(())
    };
    if let (Some(m), Some(fen)) = (mvs("moves"), case.get("fen").and_then(|x| x.as_str())) {
        let b1 = match play_engine(&start, &m) {
            Ok(b) => b,
            Err(f) => return Some(Err(f)),
        };
        let bf = Board::new(fen);
        return Some(run(&b1, &bf, "by play vs by FEN with counters"));
    }
    if let (Some(r1), Some(r2)) = (mvs("route1"), mvs("route2")) {
        let (b1, b2) = match (play_engine(&start, &r1), play_engine(&start, &r2)) {
            (Ok(a), Ok(b)) => (a, b),
            (Err(f), _) | (_, Err(f)) => return Some(Err(f)),
        };
        return Some(run(&b1, &b2, "two move orders"));
    }
    None
}

pub fn replay(part: &str, bytes: &[u8], case: &Value, stats: &mut Stats) -> Verdict {
    KDRAWS.with(|k| *k.borrow_mut() = 8);
    if let Some(pair) = case.get("replay").and_then(|r| r.get("pair")).and_then(|x| x.as_array()) {
        if let (Some(fa), Some(fb)) = (pair.get(0).and_then(|x| x.as_str()), pair.get(1).and_then(|x| x.as_str())) {
            let (ba, bb) = (Board::new(fa), Board::new(fb));
            stats.eval();
            if hashes(&ba).iter().zip(hashes(&bb).iter()).any(|(p, q)| p == q) {
                return Err(Failure::new("different-position-same-hash", json!({"position_a": fa, "position_b": fb, "fresh_draws_failed_of_8": fresh_draw_recheck(false, &ba, &bb)})));
            }
            return Ok(());
        }
    }
    if let Some(m) = case.get("replay").and_then(|r| r.get("marathon_salt")).and_then(|x| x.as_str()) {
        let salt = u64::from_str_radix(m, 16).unwrap_or(0);
        let n = case.get("replay").and_then(|r| r.get("n")).and_then(|x| x.as_u64()).unwrap_or(40_000);
        return judge_marathon(salt, n, stats);
    }
    if part == "marathon" {
        return part_marathon(bytes, stats);
    }
    if part == "routes" {
        if let Some(v) = replay_routes(case) {
            return v;
        }
    }
    match part {
        "routes" => part_routes(bytes, stats),
        "flips" => part_flips(bytes, stats),
        "pool" => part_pool(bytes, stats),
        _ => Err(Failure::new("unknown-part", json!({"part": part}))),
    }
}
