//! C14 — static evaluation is a symmetric, bounded, pure function of the position.

use crate::eng;
use crate::gen;
use crate::props::{guarded, threads};
use crate::runner::{run_part, Failure, Known, Part, Verdict};
use crate::src::Src;
use crate::stats::Stats;
use crate::{PropRun, Tier};
use flsrc::board::Board;
use flsrc::eval::Evaluator;
use refchess::{sq_of, Color, Kind, Pos};
use serde_json::{json, Value};

pub const RULE: &str = "one long-lived Evaluator fed a generated sequence of 2..60 positions (C01 mixture + extreme-material family: up to nine queens/all men vs bare king, both colours, all phases). Oracle (algebraic laws): value from the long-lived evaluator == value from a fresh Evaluator::new() == value on immediate re-evaluation (purity); eval(side-to-move swapped) == -eval exactly; eval(rank-mirrored, colours and side exchanged) == eval; |eval| < 32767 (maximum reported). Non-trivial = material unbalanced or placement not mirror-symmetric; distinct by FEN. Enumerated part 'material': every material signature with up to three men besides the king on each side (56 x 56 multisets of P N B R Q) in 60 (thorough 400) derived placements each, a whole row of signatures through one evaluator followed by the extreme counts promotions can produce (8..10 men of one kind), same laws. In every sequence each position is followed, on the same evaluator, by an occupancy twin (same squares, same colours, one man of another kind) and by itself again. Marathons: one evaluator fed 150 k (1.5 M thorough) generated positions with ever new pawn structures, each value compared with a fresh evaluator.";

pub const BOUND: i32 = 32767;

fn g_extreme(s: &mut Src) -> Pos {
    let mut p = Pos::empty();
    let strong = if s.bool() { Color::W } else { Color::B };
    p.stm = if s.bool() { Color::W } else { Color::B };
    let wk = s.below(64) as u8;
    p.sq[wk as usize] = Some((strong, Kind::K));
    let mut bk = s.below(64) as u8;
    let adj = |a: u8, b: u8| ((a % 8) as i32 - (b % 8) as i32).abs() <= 1 && ((a / 8) as i32 - (b / 8) as i32).abs() <= 1;
    let mut g = 0;
    while adj(wk, bk) && g < 64 {
        bk = (bk + 11) % 64;
        g += 1;
    }
    p.sq[bk as usize] = Some((strong.other(), Kind::K));
    let nq = s.below(10);
    let mut placed = 0;
    let mut tries = 0;
    while placed < nq && tries < 200 {
        tries += 1;
        let q = s.below(64) as u8;
        if p.sq[q as usize].is_none() {
            p.sq[q as usize] = Some((strong, Kind::Q));
            placed += 1;
        }
    }
    // the rest of a full army
    for (k, n) in [(Kind::R, 2), (Kind::B, 2), (Kind::N, 2), (Kind::P, 8)] {
        let n = s.below(n + 1);
        for _ in 0..n {
            let q = s.below(64) as u8;
            let r = q / 8;
            if p.sq[q as usize].is_none() && (k != Kind::P || (r != 0 && r != 7)) {
                p.sq[q as usize] = Some((strong, k));
            }
        }
    }
    let _ = sq_of(0, 0);
    p
}

fn swap_side(p: &Pos) -> Pos {
    let mut q = p.clone();
    q.stm = p.stm.other();
    q.ep = None;
    q
}

fn symmetric(p: &Pos) -> bool {
    let m = p.mirror();
    m.sq == p.sq
}

fn check(bytes: &[u8], stats: &mut Stats) -> Verdict {
    let mut s = Src::new(bytes);
    let n = 2 + s.below(59);
    let mut seq: Vec<(Pos, &'static str)> = Vec::new();
    for _ in 0..n {
        let item = if s.chance(20) {
            (g_extreme(&mut s), "extreme")
        } else if !seq.is_empty() && s.chance(15) {
            // revisit an earlier position of the sequence (purity across history)
            (seq[s.below(seq.len())].0.clone(), "revisit")
        } else {
            gen::g_mix(&mut s)
        };
        seq.push(item);
    }
    judge_sequence(&seq, stats)
}

/// One evaluator fed the whole sequence; every law is checked at every element.
pub fn judge_sequence(seq: &[(Pos, &'static str)], stats: &mut Stats) -> Verdict {
    let mut long_lived = Evaluator::new();
    let mut seen: Vec<(String, i32)> = Vec::new();
    let r = judge_sequence_inner(seq, &mut long_lived, &mut seen, stats);
    r.map_err(|mut f| {
        let mut fens: Vec<String> = seen.iter().map(|x| x.0.clone()).collect();
        if let Some(x) = f.detail.get("evaluated_right_after").and_then(|x| x.as_str()) {
            fens.push(x.to_string());
        }
        if let Some(x) = f.detail.get("fen").and_then(|x| x.as_str()) {
            fens.push(x.to_string());
        }
        f.detail["replay"] = json!({"sequence": fens});
        f
    })
}

fn judge_sequence_inner(seq: &[(Pos, &'static str)], long_lived: &mut Evaluator, seen: &mut Vec<(String, i32)>, stats: &mut Stats) -> Verdict {
    for (i, (p, kind)) in seq.iter().enumerate() {
        let (p, kind) = (p.clone(), *kind);
        stats.class(&format!("gen_{}", kind));
        let fen = eng::fen(&p);
        let b = guarded("Board::new", || eng::to_board(&p))?;
        let v = guarded("evaluate", || long_lived.evaluate(&b))?;
        let v_again = guarded("evaluate", || long_lived.evaluate(&b))?;
        let v_fresh = guarded("evaluate", || Evaluator::new().evaluate(&b))?;
        stats.eval();
        if v != v_fresh || v != v_again {
            return Err(Failure::new("impure", json!({"fen": fen, "index_in_sequence": i, "long_lived": v, "again": v_again, "fresh": v_fresh, "sequence_before": seen.iter().map(|x| x.0.clone()).collect::<Vec<_>>()})));
        }
        // an occupancy twin right afterwards on the same evaluator: the same squares held by the same
        // colours, one man of another kind (what the promotion alternatives of one pawn look like
        // to an evaluator that is called on them back to back), then the original once more
        {
            let h = crate::stats::hash_of(&(&fen, i));
            let cands: Vec<u8> = (0..64u8).filter(|q| matches!(p.sq[*q as usize], Some((_, k)) if k != Kind::K)).collect();
            if !cands.is_empty() {
                let q = cands[(h % cands.len() as u64) as usize];
                let (c, k) = p.sq[q as usize].unwrap();
                let kinds = [Kind::P, Kind::N, Kind::B, Kind::R, Kind::Q];
                let nk = kinds[((h >> 8) % 5) as usize];
                if nk != k && !(nk == Kind::P && (q < 8 || q >= 56)) {
                    let mut t = p.clone();
                    t.sq[q as usize] = Some((c, nk));
                    t.ep = None;
                    t.castle = [false; 4];
                    let tb = guarded("Board::new", || eng::to_board(&t))?;
                    let tv = guarded("evaluate", || long_lived.evaluate(&tb))?;
                    let tf = guarded("evaluate", || Evaluator::new().evaluate(&tb))?;
                    let back = guarded("evaluate", || long_lived.evaluate(&b))?;
                    stats.eval();
                    if tv != tf || back != v {
                        return Err(Failure::new("impure", json!({"fen": eng::fen(&t), "evaluated_right_after": fen, "long_lived": tv, "fresh": tf, "original_again": back, "original_first": v, "index_in_sequence": i, "sequence_before": seen.iter().map(|x| x.0.clone()).collect::<Vec<_>>(), "twin_after": eng::fen(&t)})));
                    }
                    stats.class("occupancy_twin_evaluated_right_after_its_original");
                }
            }
        }
        if let Some((_, old)) = seen.iter().find(|(f, _)| *f == fen) {
            if *old != v {
                return Err(Failure::new("impure", json!({"fen": fen, "first": old, "later": v})));
            }
        }
        // antisymmetry
        let sp = swap_side(&p);
        let sb = guarded("Board::new", || eng::to_board(&sp))?;
        let sv = guarded("evaluate", || long_lived.evaluate(&sb))?;
        if sv != -v {
            return Err(Failure::new("not-antisymmetric", json!({"fen": fen, "eval": v, "side_swapped_fen": eng::fen(&sp), "side_swapped_eval": sv})));
        }
        if sp.opponent_in_check() {
            stats.class("side_swap_not_a_valid_position");
        }
        // mirror
        let mp = p.mirror();
        let mb = guarded("Board::new", || eng::to_board(&mp))?;
        let mv = guarded("evaluate", || long_lived.evaluate(&mb))?;
        if mv != v {
            return Err(Failure::new("mirror-asymmetric", json!({"fen": fen, "eval": v, "mirror_fen": eng::fen(&mp), "mirror_eval": mv})));
        }
        // bound
        if v.abs() >= BOUND {
            return Err(Failure::new("out-of-window", json!({"fen": fen, "eval": v, "bound": BOUND})));
        }
        stats.maximum(if kind == "extreme" { "max_abs_eval_extreme" } else { "max_abs_eval_gamelike" }, v.abs() as i64);
        if v != 0 || !symmetric(&p) {
            stats.nontrivial(&p.fen4());
        }
        stats.sample(|| json!({"fen": fen, "eval": v, "gen": kind}));
        seen.push((fen, v));
    }
    Ok(())
}

fn mix(x: u64) -> u64 {
    let mut z = x.wrapping_add(0x9e3779b97f4a7c15);
    z = (z ^ (z >> 30)).wrapping_mul(0xbf58476d1ce4e5b9);
    z = (z ^ (z >> 27)).wrapping_mul(0x94d049bb133111eb);
    z ^ (z >> 31)
}

/// The i-th position of the marathon with the given salt: two kings, 0..8 pawns a side on ranks
/// 2..7 (the point is the variety of pawn structures), 0..3 other men.  Valid by construction
/// or repaired; None if it cannot be made valid.
pub fn marathon_position(salt: u64, i: u64) -> Option<Pos> {
    let mut r = mix(salt ^ i.wrapping_mul(0x2545f4914f6cdd1d));
    let mut next = |n: u64| {
        r = mix(r);
        r % n
    };
    let mut p = Pos::empty();
    let wk = next(64) as u8;
    let mut bk = next(64) as u8;
    let adj = |a: u8, b: u8| ((a % 8) as i32 - (b % 8) as i32).abs() <= 1 && ((a / 8) as i32 - (b / 8) as i32).abs() <= 1;
    let mut g = 0;
    while adj(wk, bk) && g < 64 {
        bk = (bk + 11) % 64;
        g += 1;
    }
    p.sq[wk as usize] = Some((refchess::Color::W, refchess::Kind::K));
    p.sq[bk as usize] = Some((refchess::Color::B, refchess::Kind::K));
    for c in [refchess::Color::W, refchess::Color::B] {
        for _ in 0..next(9) {
            let sq = (8 + next(48)) as usize;
            if p.sq[sq].is_none() {
                p.sq[sq] = Some((c, refchess::Kind::P));
            }
        }
    }
    for _ in 0..next(4) {
        let sq = next(64) as usize;
        if p.sq[sq].is_none() {
            let c = if next(2) == 0 { refchess::Color::W } else { refchess::Color::B };
            let k = [refchess::Kind::N, refchess::Kind::B, refchess::Kind::R, refchess::Kind::Q][next(4) as usize];
            p.sq[sq] = Some((c, k));
        }
    }
    p.stm = if next(2) == 0 { refchess::Color::W } else { refchess::Color::B };
    gen::repair(&mut p);
    if p.is_valid() {
        Some(p)
    } else {
        None
    }
}

/// Marathon: ONE evaluator is fed `n` positions with ever new pawn structures; each value must
/// equal what a fresh evaluator says.  Whatever an evaluator remembers between calls (a cache of
/// any size and any key) shows here or nowhere.  The run is a function of (salt, n).
fn judge_marathon(salt: u64, n: u64, stats: &mut Stats) -> Verdict {
    let mut long_lived = Evaluator::new();
    let mut structures = std::collections::HashSet::new();
    for i in 0..n {
        let Some(p) = marathon_position(salt, i) else { continue };
        let b = Board::new(&p.fen(0, 1));
        let v = long_lived.evaluate(&b);
        let vf = Evaluator::new().evaluate(&b);
        stats.eval();
        if v != vf {
            return Err(Failure::new(
                "impure",
                json!({"fen": p.fen(0, 1), "how": "one evaluator fed a long stream of positions", "index_in_stream": i, "long_lived": v, "fresh": vf, "replay": {"marathon": true, "salt": format!("{:016x}", salt), "positions": n}}),
            ));
        }
        if structures.len() < 400_000 {
            let pawns: u64 = (0..64u8).filter(|q| matches!(p.sq[*q as usize], Some((_, refchess::Kind::P)))).fold(0u64, |a, q| a | 1 << q);
            let white: u64 = (0..64u8).filter(|q| matches!(p.sq[*q as usize], Some((refchess::Color::W, refchess::Kind::P)))).fold(0u64, |a, q| a | 1 << q);
            structures.insert((pawns, white));
        }
    }
    stats.class("marathons");
    stats.maximum("marathon_distinct_pawn_structures", structures.len() as i64);
    stats.nontrivial(&(salt, n));
    stats.sample(|| json!({"marathon_positions": n, "distinct_pawn_structures_seen_by_one_evaluator": structures.len(), "salt": format!("{:016x}", salt)}));
    Ok(())
}

thread_local! {
    static MARATHON_N: std::cell::Cell<u64> = std::cell::Cell::new(150_000);
}

fn check_marathon(bytes: &[u8], stats: &mut Stats) -> Verdict {
    let mut s = Src::new(bytes);
    let salt = s.u64();
    judge_marathon(salt, MARATHON_N.with(|c| c.get()), stats)
}

pub fn fuzz_entry(bytes: &[u8]) -> Verdict {
    let mut st = Stats::new();
    check(bytes, &mut st)
}

/// Enumerated part 'material': every material signature with up to three men besides the king on
/// each side (all multisets of P N B R Q of size 0..3, 56 x 56 signatures), each in several derived
/// placements (bishops on both square colours, pawns on every rank, kings apart), either side to
/// move — special cases of an evaluation are usually keyed on material, and a sampling generator
/// meets 'exactly one bishop each on opposite colours and nothing else' by luck only.  A run of
/// signatures goes through ONE evaluator, so what it keeps from the previous call meets the next
/// signature's look-alikes.
fn material_signatures() -> Vec<Vec<Kind>> {
    let kinds = [Kind::P, Kind::N, Kind::B, Kind::R, Kind::Q];
    let mut v: Vec<Vec<Kind>> = vec![vec![]];
    for a in 0..5 {
        v.push(vec![kinds[a]]);
        for b in a..5 {
            v.push(vec![kinds[a], kinds[b]]);
            for c in b..5 {
                v.push(vec![kinds[a], kinds[b], kinds[c]]);
            }
        }
    }
    v
}

fn material_position(w: &[Kind], b: &[Kind], variant: u64) -> Option<Pos> {
    let mut p = Pos::empty();
    let mut h = mix(variant.wrapping_mul(0x9e37_79b9_7f4a_7c15) ^ (w.len() as u64) << 7 ^ (b.len() as u64) << 3);
    let mut next = |n: u64| {
        h = mix(h);
        h % n
    };
    let wk = next(64) as u8;
    let mut bk = next(64) as u8;
    let adj = |a: u8, b: u8| ((a % 8) as i32 - (b % 8) as i32).abs() <= 1 && ((a / 8) as i32 - (b / 8) as i32).abs() <= 1;
    let mut g = 0;
    while adj(wk, bk) && g < 64 {
        bk = (bk + 19) % 64;
        g += 1;
    }
    p.sq[wk as usize] = Some((Color::W, Kind::K));
    p.sq[bk as usize] = Some((Color::B, Kind::K));
    for (col, men) in [(Color::W, w), (Color::B, b)] {
        for k in men {
            let mut placed = false;
            for _ in 0..40 {
                let q = next(64) as u8;
                if p.sq[q as usize].is_some() || (*k == Kind::P && (q < 8 || q >= 56)) {
                    continue;
                }
                p.sq[q as usize] = Some((col, *k));
                placed = true;
                break;
            }
            if !placed {
                return None;
            }
        }
    }
    p.stm = if next(2) == 0 { Color::W } else { Color::B };
    if p.opponent_in_check() {
        p.stm = p.stm.other();
        if p.opponent_in_check() {
            return None;
        }
    }
    Some(p)
}

fn judge_material_row(wi: usize, sigs: &[Vec<Kind>], variants: u64, stats: &mut Stats) -> Verdict {
    let mut seq: Vec<(Pos, &'static str)> = Vec::new();
    for b in sigs {
        for v in 0..variants {
            if let Some(p) = material_position(&sigs[wi], b, v * 977 + wi as u64) {
                seq.push((p, "material"));
            }
        }
    }
    // ... and at the end of the row (the evaluator has seen every small signature of this row by
    // then) the extreme counts a game can reach by promotions: 8, 9 and 10 men of one kind on one
    // side against a bare king or a single man, both colours
    for kind in [Kind::N, Kind::B, Kind::R, Kind::Q] {
        for count in [8usize, 9, 10] {
            if kind == Kind::Q && count == 10 {
                continue;
            }
            for other in [vec![], vec![Kind::P], vec![Kind::Q]] {
                let many = vec![kind; count];
                for v in 0..2u64 {
                    if let Some(p) = material_position(&many, &other, v * 131 + count as u64 + wi as u64) {
                        seq.push((p, "extreme"));
                    }
                    if let Some(p) = material_position(&other, &many, v * 137 + count as u64 + wi as u64) {
                        seq.push((p, "extreme"));
                    }
                }
            }
        }
    }
    eng::set_counter_wish(0, 1);
    stats.class_n("material_signature_positions", seq.len() as u64);
    judge_sequence(&seq, stats)
}

pub fn run(tier: Tier, seed: u64, known: &Known) -> PropRun {
    let mut run = PropRun::new("exploration", RULE);
    run.assumptions = vec![
        "'well inside the search window' is judged as |eval| < 32767 (necessary condition); the measured maximum is reported under maxima".into(),
        "the side-swapped position need not be a valid position; evaluate is total on boards".into(),
    ];
    {
        let sigs = material_signatures();
        let rows: Vec<usize> = (0..sigs.len()).collect();
        let variants = tier.pick(60u64, 400u64);
        run.stats.class_n("material_signatures_per_side", sigs.len() as u64);
        let (st, fl) = crate::runner::run_enumerated("material", &rows, crate::props::threads(), seed, known, |i, st| judge_material_row(*i, &sigs, variants, st));
        run.stats.merge(st);
        if fl.is_some() {
            run.failure = fl;
            return run;
        }
    }
    let part = Part { name: "sequences", cases: tier.pick(40_000, 600_000), min_len: 32, max_len: 4000, max_shrink: 4000, threads: threads() };
    let (st, fl) = run_part(&part, seed, known, check);
    run.stats.merge(st);
    if fl.is_some() {
        run.failure = fl;
        return run;
    }
    // marathons: one evaluator, hundreds of thousands of pawn structures
    let n = tier.pick(150_000u64, 1_500_000u64);
    let part = Part { name: "marathon", cases: tier.pick(16, 64), min_len: 8, max_len: 16, max_shrink: 4, threads: threads() };
    let (st, fl) = run_part(&part, seed, known, |b, st| {
        MARATHON_N.with(|c| c.set(n));
        check_marathon(b, st)
    });
    run.stats.merge(st);
    run.failure = fl;
    run
}

pub fn replay(part: &str, bytes: &[u8], case: &Value, stats: &mut Stats) -> Verdict {
    if let Some(r) = case.get("replay").filter(|r| r.get("marathon").and_then(|x| x.as_bool()) == Some(true)) {
        let salt = r.get("salt").and_then(|x| x.as_str()).and_then(|s| u64::from_str_radix(s, 16).ok()).unwrap_or(0);
        let n = r.get("positions").and_then(|x| x.as_u64()).unwrap_or(0);
        return judge_marathon(salt, n, stats);
    }
    if part == "marathon" {
        MARATHON_N.with(|c| c.set(1_500_000));
        return check_marathon(bytes, stats);
    }
    // structural replay: the saved sequence of positions (or the single position of older files)
    let fens: Vec<String> = match case.get("replay").and_then(|r| r.get("sequence")).and_then(|x| x.as_array()) {
        Some(a) => a.iter().filter_map(|x| x.as_str().map(|s| s.to_string())).collect(),
        None => {
            let mut v: Vec<String> = case.get("sequence_before").and_then(|x| x.as_array()).map(|a| a.iter().filter_map(|x| x.as_str().map(|s| s.to_string())).collect()).unwrap_or_default();
            if let Some(f) = case.get("fen").and_then(|x| x.as_str()) {
                v.push(f.to_string());
            }
            v
        }
    };
    if !fens.is_empty() {
        let mut seq: Vec<(Pos, &'static str)> = Vec::new();
        for f in &fens {
            if let Some(p) = eng::pos_from_saved_fen(f) {
                seq.push((p, "replay"));
            }
        }
        if seq.len() == fens.len() {
            return judge_sequence(&seq, stats);
        }
    }
    check(bytes, stats)
}
