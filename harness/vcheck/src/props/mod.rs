//! One module per property.

use crate::runner::{Failure, Known, Verdict};
use crate::{PropRun, Tier};
use serde_json::{json, Value};

pub mod c01;
pub mod c02;
pub mod c03;
pub mod c04;
pub mod c05;
pub mod c06;
pub mod c07;
pub mod c08;
pub mod c09;
pub mod c10;
pub mod c11;
pub mod c12;
pub mod c13;
pub mod c14;
pub mod c15;
pub mod c16;
pub mod c17;

pub fn threads() -> usize {
    std::env::var("VERIF_THREADS").ok().and_then(|s| s.parse().ok()).unwrap_or(16)
}

/// Runs an engine call, turning a panic into a classified failure.
pub fn guarded<T, F: FnOnce() -> T>(what: &str, f: F) -> Result<T, Failure> {
    match std::panic::catch_unwind(std::panic::AssertUnwindSafe(f)) {
        Ok(v) => Ok(v),
        Err(p) => Err(Failure::new("engine-panic", json!({"in": what, "panic": crate::panic_text(&p)}))),
    }
}

pub fn run(id: &str, tier: Tier, seed: u64, known: &Known) -> PropRun {
    match id {
        "C01" => c01::run(tier, seed, known),
        "C02" => c02::run(tier, seed, known),
        "C03" => c03::run(tier, seed, known),
        "C04" => c04::run(tier, seed, known),
        "C05" => c05::run(tier, seed, known),
        "C06" => c06::run(tier, seed, known),
        "C07" => c07::run(tier, seed, known),
        "C08" => c08::run(tier, seed, known),
        "C09" => c09::run(tier, seed, known),
        "C10" => c10::run(tier, seed, known),
        "C11" => c11::run(tier, seed, known),
        "C12" => c12::run(tier, seed, known),
        "C13" => c13::run(tier, seed, known),
        "C14" => c14::run(tier, seed, known),
        "C15" => c15::run(tier, seed, known),
        "C16" => c16::run(tier, seed, known),
        "C17" => c17::run(tier, seed, known),
        _ => {
            let mut r = PropRun::new("exploration", "");
            r.inconclusive = Some(format!("unknown property {}", id));
            r
        }
    }
}

pub fn replay(id: &str, part: &str, bytes: &[u8], case: &Value) -> Verdict {
    let mut st = crate::stats::Stats::new();
    crate::eng::set_counter_wish_from_bytes(bytes);
    match id {
        "C01" => c01::replay(part, bytes, case, &mut st),
        "C02" => c02::replay(part, bytes, case, &mut st),
        "C03" => c03::replay(part, bytes, case, &mut st),
        "C04" => c04::replay(part, bytes, case, &mut st),
        "C05" => c05::replay(part, bytes, case, &mut st),
        "C06" => c06::replay(part, bytes, case, &mut st),
        "C07" => c07::replay(part, bytes, case, &mut st),
        "C08" => c08::replay(part, bytes, case, &mut st),
        "C09" => c09::replay(part, bytes, case, &mut st),
        "C10" => c10::replay(part, bytes, case, &mut st),
        "C11" => c11::replay(part, bytes, case, &mut st),
        "C12" => c12::replay(part, bytes, case, &mut st),
        "C13" => c13::replay(part, bytes, case, &mut st),
        "C14" => c14::replay(part, bytes, case, &mut st),
        "C15" => c15::replay(part, bytes, case, &mut st),
        "C16" => c16::replay(part, bytes, case, &mut st),
        "C17" => c17::replay(part, bytes, case, &mut st),
        _ => Err(Failure::new("unknown-property", json!({"id": id}))),
    }
}

/// Entry used by the libFuzzer targets in /verif/fuzz: runs the property's oracle on raw bytes.
pub fn fuzz_entry(id: &str, bytes: &[u8]) -> Verdict {
    crate::eng::set_counter_wish_from_bytes(bytes);
    match id {
        "C01" => c01::fuzz_entry(bytes),
        "C02" => c02::fuzz_entry(bytes),
        "C03" => c03::fuzz_entry(bytes),
        "C04" => c04::fuzz_entry(bytes),
        "C05" => c05::fuzz_entry(bytes),
        "C06" => c06::fuzz_entry(bytes),
        "C07" => c07::fuzz_entry(bytes),
        "C08" => c08::fuzz_entry(bytes),
        "C09" => c09::fuzz_entry(bytes),
        "C11" => c11::fuzz_entry(bytes),
        "C12" => c12::fuzz_entry(bytes),
        "C14" => c14::fuzz_entry(bytes),
        "C15" => c15::fuzz_entry(bytes),
        "C17" => c17::fuzz_entry(bytes),
        _ => Ok(()),
    }
}

/// Replays a raw libFuzzer artefact through the production-profile oracle.
pub fn replay_fuzz_bytes(id: &str, bytes: &[u8]) -> Verdict {
    fuzz_entry(id, bytes)
}
