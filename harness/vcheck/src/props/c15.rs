//! C15 — transposition table returns only what was stored for that key, deepest wins.
//! Model-based: op histories against a HashMap model, compared after every op.

use crate::props::threads;
use crate::runner::{run_part, Failure, Known, Part, Verdict};
use crate::src::Src;
use crate::stats::{hash_of, Stats};
use crate::{PropRun, Tier};
use flsrc::moves::{Move, MoveType};
use flsrc::pieces::Piece;
use flsrc::transposition::{Bounds, TranspositionTable};
use serde_json::{json, Value};
use std::collections::HashMap;

pub const RULE: &str = "histories of 0..400 Store{key,eval,move,depth,bound} / Retrieve{key} ops on one table; keys from a universe built for interference (4..12 hot keys; keys agreeing in their low 8/16/20/24/32 bits or high bits or differing in one bit; 0 and u64::MAX; fresh random keys); depths 0..255 biased to equal/adjacent; arbitrary i32 scores incl. mate range. Oracle: observational model of exactly the statement (a lookup may return nothing at any time, so the model is the last OBSERVED content per key): a never-stored key has nothing; between stores retrieve(k) is what was last observed for k or nothing, and once nothing stays nothing; store(k,new) onto nothing or onto depth <= new.depth makes retrieve(k) == new at once (all five fields); store onto a deeper entry leaves that entry; checked after EVERY op for the op's key, all hot keys and 4 never-stored keys. Long histories: 70 k .. 1.3 M operations (4.4 M thorough), most of them stores under fresh keys (the table fills with over a million distinct keys), the tracked keys (hot keys, the first 384 fresh keys, every 1024th later one) re-stored, looked up round-robin after every operation and all together every 65536 operations, same rules. Non-trivial = history contains for one key a store that must be rejected (shallower after deeper) AND one accepted at equal depth, and >=2 distinct keys sharing low 16 bits; distinct by op-list hash.";

#[derive(Clone, Copy, PartialEq, Debug)]
struct Ent {
    key: u64,
    eval: i32,
    mv: Option<(u8, u8, u8, u8)>,
    depth: u8,
    bound: u8,
}

fn piece(i: u8) -> Piece {
    [Piece::Pawn, Piece::Knight, Piece::Bishop, Piece::Rook, Piece::Queen, Piece::King][(i % 6) as usize]
}
fn mtype(i: u8) -> MoveType {
    [MoveType::Quiet, MoveType::Capture, MoveType::EnPassant, MoveType::Castle, MoveType::Promotion][(i % 5) as usize]
}
fn bound(i: u8) -> Bounds {
    [Bounds::Exact, Bounds::Lower, Bounds::Upper][(i % 3) as usize]
}

fn gen_universe(s: &mut Src) -> Vec<u64> {
    let n = 4 + s.below(9);
    let mut keys = Vec::new();
    let base = s.u64();
    keys.push(base);
    while keys.len() < n {
        let r = s.u64();
        let k = match s.below(9) {
            0 => (r & !0xff) | (base & 0xff),
            1 => (r & !0xffff) | (base & 0xffff),
            2 => (r & !0xfffff) | (base & 0xfffff),
            3 => (r & !0xffffff) | (base & 0xffffff),
            4 => (r & !0xffff_ffff) | (base & 0xffff_ffff),
            5 => (r & 0xffff_ffff) | (base & !0xffff_ffff),
            6 => base ^ (1u64 << s.below(64)),
            7 => *s.pick(&[0u64, u64::MAX, 1, 1 << 63]),
            _ => r,
        };
        keys.push(k);
    }
    keys
}

fn read(tt: &TranspositionTable, k: u64) -> Option<Ent> {
    tt.retrieve(k).map(|e| Ent {
        key: e.hash_key,
        eval: e.eval,
        mv: e.best_move.map(|m| {
            (m.from, m.to, m.piece_type.index() as u8, match m.move_type {
                MoveType::Quiet => 0,
                MoveType::Capture => 1,
                MoveType::EnPassant => 2,
                MoveType::Castle => 3,
                MoveType::Promotion => 4,
            })
        }),
        depth: e.depth,
        bound: match e.bounds {
            Bounds::Exact => 0,
            Bounds::Lower => 1,
            Bounds::Upper => 2,
        },
    })
}

#[derive(Clone, Debug)]
enum Op {
    Store { key: u64, eval: i32, mv: Option<(u8, u8, u8, u8)>, depth: u8, bound: u8 },
    Retrieve { key: u64 },
}

fn op_json(o: &Op) -> Value {
    match o {
        Op::Store { key, eval, mv, depth, bound } => json!({"op": "store", "key": format!("{:016x}", key), "eval": eval, "depth": depth, "bound": bound, "move": mv.map(|m| vec![m.0, m.1, m.2, m.3])}),
        Op::Retrieve { key } => json!({"op": "retrieve", "key": format!("{:016x}", key)}),
    }
}

fn op_from_json(v: &Value) -> Option<Op> {
    let key = u64::from_str_radix(v.get("key")?.as_str()?, 16).ok()?;
    match v.get("op")?.as_str()? {
        "retrieve" => Some(Op::Retrieve { key }),
        "store" => {
            let mv = v.get("move").and_then(|m| m.as_array()).and_then(|a| if a.len() == 4 { Some((a[0].as_u64()? as u8, a[1].as_u64()? as u8, a[2].as_u64()? as u8, a[3].as_u64()? as u8)) } else { None });
            Some(Op::Store { key, eval: v.get("eval")?.as_i64()? as i32, mv, depth: v.get("depth")?.as_u64()? as u8, bound: v.get("bound")?.as_u64()? as u8 })
        }
        _ => None,
    }
}

fn check(bytes: &[u8], stats: &mut Stats) -> Verdict {
    let mut s = Src::new(bytes);
    let hot = gen_universe(&mut s);
    let never: Vec<u64> = (0..4).map(|i| hot[0].rotate_left(7 * (i + 1)) ^ 0xa5a5_5a5a_dead_beef ^ i as u64).chain([0u64, u64::MAX, 1, 1 << 63, 0xffff_ffff, 1 << 32]).filter(|k| !hot.contains(k)).collect();
    let nops = s.below(401);
    // depth of the entry a never-forgetting table would hold (used only to aim generated depths)
    let mut shadow: HashMap<u64, u8> = HashMap::new();
    let mut last_depth: u8 = s.u8();
    let mut ops: Vec<Op> = Vec::new();
    for _ in 0..nops {
        let key = if s.chance(88) { hot[s.below(hot.len())] } else { s.u64() };
        if never.contains(&key) {
            continue;
        }
        if s.chance(65) {
            let depth = match s.below(6) {
                0 => last_depth,
                1 => last_depth.wrapping_add(1),
                2 => last_depth.wrapping_sub(1),
                3 => shadow.get(&key).copied().unwrap_or(0),
                4 => *s.pick(&[0u8, 1, 254, 255]),
                _ => s.u8(),
            };
            last_depth = depth;
            let eval = match s.below(4) {
                0 => s.u32() as i32,
                1 => i32::MAX - 1000 - s.below(70) as i32,
                2 => -(i32::MAX - 1000) + s.below(70) as i32,
                _ => s.below(4000) as i32 - 2000,
            };
            let mv = if s.chance(80) { Some((s.below(64) as u8, s.below(64) as u8, s.below(6) as u8, s.below(5) as u8)) } else { None };
            let b = s.below(3) as u8;
            if shadow.get(&key).map_or(true, |d| *d <= depth) {
                shadow.insert(key, depth);
            }
            ops.push(Op::Store { key, eval, mv, depth, bound: b });
        } else {
            ops.push(Op::Retrieve { key });
        }
    }
    judge_ops(&hot, &never, &ops, stats)
}

/// Observational model.  The statement allows a lookup to return nothing at any time (a table may
/// forget), so the model is not "a map that never loses anything" but the last OBSERVED content per
/// key, and the rules are exactly the statement's:
///  * a key never stored has nothing; nothing is ever returned under a key other than its own;
///  * between two stores to k, retrieve(k) is what was last observed for k, or nothing — and once
///    nothing, it stays nothing (no resurrection, no invention);
///  * store(k, new) when k holds nothing or an entry with depth <= new.depth: retrieve(k) right
///    afterwards is exactly `new` (an equal or deeper result does replace);
///  * store(k, new) when k holds a deeper entry: retrieve(k) right afterwards is still that deeper
///    entry (or nothing) — never `new`.
fn judge_ops(hot: &[u64], never: &[u64], ops: &[Op], stats: &mut Stats) -> Verdict {
    let mut tt = TranspositionTable::new();
    let mut obs: HashMap<u64, Option<Ent>> = HashMap::new();
    let mut stored_ever: Vec<u64> = Vec::new();
    let mut log: Vec<Value> = Vec::new();
    let (mut saw_reject, mut saw_equal_accept) = (false, false);
    let mut forgotten = 0u64;
    let mut ophash = 0u64;
    let fail = |sig: &str, opi: usize, k: u64, got: &Option<Ent>, want: String, log: &Vec<Value>| {
        let tail: Vec<Value> = log.iter().rev().take(12).rev().cloned().collect();
        Failure::new(
            sig,
            json!({"after_op": opi, "probe_key": format!("{:016x}", k), "got": format!("{:?}", got), "allowed": want, "last_ops": tail, "ops_total": log.len(),
                   "replay": {"hot_keys": hot.iter().map(|k| format!("{:016x}", k)).collect::<Vec<_>>(), "never_stored_keys": never.iter().map(|k| format!("{:016x}", k)).collect::<Vec<_>>(), "ops": log}}),
        )
    };
    for (opi, op) in ops.iter().enumerate() {
        let key = match op {
            Op::Store { key, .. } | Op::Retrieve { key } => *key,
        };
        log.push(op_json(op));
        if let Op::Store { key, eval, mv, depth, bound: b } = op.clone() {
            let emv = mv.map(|(f, t, p, mt)| Move::new(f, t, piece(p), mtype(mt)));
            // what the table holds for this key right now
            let pre = read(&tt, key);
            let before = obs.get(&key).copied().flatten();
            if pre.is_some() && pre != before {
                let sig = if !stored_ever.contains(&key) { "returned-for-never-stored-key" } else if pre.map(|e| e.key) != Some(key) { "entry-of-another-key" } else { "wrong-entry" };
                return Err(fail(sig, opi, key, &pre, format!("{:?} or None", before), &log));
            }
            tt.store(key, eval, emv, depth, bound(b));
            let new = Ent { key, eval, mv, depth, bound: b };
            ophash = hash_of(&(ophash, 1u8, key, eval, depth, b, mv));
            let post = read(&tt, key);
            match pre {
                Some(old) if old.depth > depth => {
                    saw_reject = true;
                    if post == Some(new) {
                        return Err(fail("shallower-replaced-deeper", opi, key, &post, format!("{:?} (the deeper entry present before the store)", old), &log));
                    }
                    if post.is_some() && post != Some(old) {
                        let sig = if post.map(|e| e.key) != Some(key) { "entry-of-another-key" } else { "wrong-entry" };
                        return Err(fail(sig, opi, key, &post, format!("{:?}", old), &log));
                    }
                }
                _ => {
                    if matches!(pre, Some(old) if old.depth == depth) {
                        saw_equal_accept = true;
                    }
                    if post != Some(new) {
                        let sig = match (&post, &pre) {
                            (None, _) => "accepted-store-not-retrievable",
                            (Some(g), _) if g.key != key => "entry-of-another-key",
                            (Some(g), Some(old)) if g == old => "deeper-or-equal-not-accepted",
                            _ => "wrong-entry",
                        };
                        return Err(fail(sig, opi, key, &post, format!("{:?} (nothing, or nothing deeper, was held for the key)", new), &log));
                    }
                }
            }
            obs.insert(key, post);
            if !stored_ever.contains(&key) {
                stored_ever.push(key);
            }
        } else {
            ophash = hash_of(&(ophash, 2u8, key));
        }
        stats.eval();
        // after every op: the op's key, all hot keys, the never-stored keys
        let mut probe: Vec<u64> = vec![key];
        probe.extend_from_slice(hot);
        probe.extend_from_slice(never);
        for k in probe {
            let got = read(&tt, k);
            let before = obs.get(&k).copied().flatten();
            match (&got, &before) {
                (None, None) => {}
                (None, Some(_)) => {
                    // the table forgot an entry: allowed by the statement, counted
                    forgotten += 1;
                    obs.insert(k, None);
                }
                (Some(g), _) if Some(*g) == before => {}
                (Some(g), _) => {
                    let sig = if !stored_ever.contains(&k) {
                        "returned-for-never-stored-key"
                    } else if g.key != k {
                        "entry-of-another-key"
                    } else if before.is_none() {
                        "entry-came-back-after-lookup-returned-nothing"
                    } else {
                        "wrong-entry"
                    };
                    return Err(fail(sig, opi, k, &got, format!("{:?} or None", before), &log));
                }
            }
        }
    }
    let shared_low = {
        let mut v: Vec<u64> = stored_ever.iter().map(|k| k & 0xffff).collect();
        v.sort();
        v.windows(2).any(|w| w[0] == w[1])
    };
    if saw_reject {
        stats.class("has_rejected_store");
    }
    if saw_equal_accept {
        stats.class("has_equal_depth_accept");
    }
    if shared_low {
        stats.class("keys_sharing_low16");
    }
    if forgotten > 0 {
        stats.class_n("entries_the_table_forgot_(allowed)", forgotten);
    }
    if saw_reject && saw_equal_accept && shared_low {
        stats.nontrivial(&ophash);
    }
    stats.sample(|| json!({"ops": log.len(), "hot_keys": hot.iter().map(|k| format!("{:016x}", k)).collect::<Vec<_>>(), "first_ops": log.iter().take(6).cloned().collect::<Vec<_>>()}));
    Ok(())
}

fn splitmix(x: u64) -> u64 {
    let mut z = x.wrapping_add(0x9e3779b97f4a7c15);
    z = (z ^ (z >> 30)).wrapping_mul(0xbf58476d1ce4e5b9);
    z = (z ^ (z >> 27)).wrapping_mul(0x94d049bb133111eb);
    z ^ (z >> 31)
}

/// Long histories: `n` operations, most of them stores under keys never used before (so the
/// table fills with up to millions of distinct keys), interleaved with stores and lookups of a
/// tracked set (hot keys, the first few hundred fresh keys, every 1024th later one).  Same rules
/// as `judge_ops`; the tracked keys are probed round-robin after every operation and all together
/// every 65536 operations.  The history is a function of (hot keys, n, salt): that is what the
/// replay file stores.
fn judge_long(hot: &[u64], never: &[u64], n: u64, salt: u64, stats: &mut Stats) -> Verdict {
    let mut tt = TranspositionTable::new();
    let mut obs: HashMap<u64, Option<Ent>> = HashMap::new();
    let mut tracked: Vec<u64> = hot.to_vec();
    for k in hot {
        obs.insert(*k, None);
    }
    let mut forgotten = 0u64;
    let fresh_key = |i: u64| splitmix(salt ^ i.wrapping_mul(0x2545f4914f6cdd1d)) | 1 << 40;
    let fail = |sig: &str, opi: u64, k: u64, got: &Option<Ent>, want: String| {
        Failure::new(sig, json!({"after_op": opi, "probe_key": format!("{:016x}", k), "got": format!("{:?}", got), "allowed": want,
            "replay": {"long": true, "hot_keys": hot.iter().map(|k| format!("{:016x}", k)).collect::<Vec<_>>(), "never_stored_keys": never.iter().map(|k| format!("{:016x}", k)).collect::<Vec<_>>(), "ops": n, "salt": format!("{:016x}", salt)}}))
    };
    let probe = |tt: &TranspositionTable, obs: &mut HashMap<u64, Option<Ent>>, k: u64, opi: u64, forgotten: &mut u64| -> Verdict {
        let got = read(tt, k);
        let before = obs.get(&k).copied().flatten();
        match (&got, &before) {
            (None, None) => Ok(()),
            (None, Some(_)) => {
                *forgotten += 1;
                obs.insert(k, None);
                Ok(())
            }
            (Some(g), _) if Some(*g) == before => Ok(()),
            (Some(g), _) => {
                let sig = if g.key != k { "entry-of-another-key" } else if before.is_none() { "entry-came-back-after-lookup-returned-nothing" } else { "wrong-entry" };
                Err(fail(sig, opi, k, &got, format!("{:?} or None", before)))
            }
        }
    };
    let mut rr = 0usize;
    for i in 0..n {
        let r = splitmix(salt.wrapping_add(i));
        let revisit = r % 19 == 0 && !tracked.is_empty();
        let key = if revisit { tracked[(r >> 8) as usize % tracked.len()] } else { fresh_key(i) };
        let is_tracked = revisit || i < 384 || i % 1024 == 0;
        if is_tracked && !revisit {
            tracked.push(key);
            obs.insert(key, None);
        }
        if r % 7 != 6 || !revisit {
            // store
            let held = obs.get(&key).copied().flatten().map(|e| e.depth);
            let depth = match (revisit, (r >> 16) % 4) {
                (true, 0) => held.unwrap_or(3),
                (true, 1) => held.unwrap_or(3).wrapping_sub(1 + ((r >> 20) % 3) as u8),
                (true, 2) => held.unwrap_or(3).wrapping_add(1),
                _ => 1 + ((r >> 24) % 24) as u8,
            };
            let eval = ((r >> 32) as i32) % 3000;
            let b = ((r >> 12) % 3) as u8;
            let mv = Some((((r >> 40) % 64) as u8, ((r >> 46) % 64) as u8, ((r >> 52) % 6) as u8, ((r >> 56) % 5) as u8));
            let emv = mv.map(|(f, t, p, mt)| Move::new(f, t, piece(p), mtype(mt)));
            let pre = read(&tt, key);
            if is_tracked {
                let before = obs.get(&key).copied().flatten();
                if pre.is_some() && pre != before {
                    let sig = if pre.map(|e| e.key) != Some(key) { "entry-of-another-key" } else { "wrong-entry" };
                    return Err(fail(sig, i, key, &pre, format!("{:?} or None", before)));
                }
            } else if pre.is_some() {
                return Err(fail("returned-for-never-stored-key", i, key, &pre, "None".into()));
            }
            tt.store(key, eval, emv, depth, bound(b));
            let new = Ent { key, eval, mv, depth, bound: b };
            let post = read(&tt, key);
            match pre {
                Some(old) if old.depth > depth => {
                    if post == Some(new) {
                        return Err(fail("shallower-replaced-deeper", i, key, &post, format!("{:?}", old)));
                    }
                    if post.is_some() && post != Some(old) {
                        return Err(fail("wrong-entry", i, key, &post, format!("{:?}", old)));
                    }
                }
                _ => {
                    if post != Some(new) {
                        let sig = if post.is_none() { "accepted-store-not-retrievable" } else { "deeper-or-equal-not-accepted" };
                        return Err(fail(sig, i, key, &post, format!("{:?}", new)));
                    }
                }
            }
            if is_tracked {
                obs.insert(key, post);
            }
        }
        stats.eval();
        // round-robin probes after every operation, everything every 65536 operations
        for _ in 0..4 {
            if tracked.is_empty() {
                break;
            }
            rr = (rr + 1) % tracked.len();
            let k = tracked[rr];
            probe(&tt, &mut obs, k, i, &mut forgotten)?;
        }
        if i % 65536 == 65535 || i + 1 == n {
            for k in tracked.clone() {
                probe(&tt, &mut obs, k, i, &mut forgotten)?;
            }
            for k in never {
                let got = read(&tt, *k);
                if got.is_some() {
                    return Err(fail("returned-for-never-stored-key", i, *k, &got, "None".into()));
                }
            }
        }
    }
    stats.class("long_histories");
    stats.maximum("long_history_distinct_keys", (n - n / 19) as i64);
    if forgotten > 0 {
        stats.class_n("entries_the_table_forgot_(allowed)", forgotten);
    }
    stats.nontrivial(&(n, salt));
    stats.sample(|| json!({"long_history_ops": n, "tracked_keys": tracked.len(), "salt": format!("{:016x}", salt)}));
    Ok(())
}

thread_local! {
    static LONG_MAX: std::cell::Cell<u64> = std::cell::Cell::new(1_300_000);
}

fn check_long(bytes: &[u8], stats: &mut Stats) -> Verdict {
    let mut s = Src::new(bytes);
    let hot = gen_universe(&mut s);
    let never: Vec<u64> = (0..4).map(|i| hot[0].rotate_left(7 * (i + 1)) ^ 0xa5a5_5a5a_dead_beef ^ i as u64).chain([0u64, u64::MAX, 1, 1 << 63, 0xffff_ffff, 1 << 32]).filter(|k| !hot.contains(k)).collect();
    let max = LONG_MAX.with(|c| c.get());
    // sizes around the powers of two a capacity limit would sit at
    let n = *s.pick(&[70_000u64, 140_000, 280_000, 540_000, 1_100_000, 1_300_000, 2_200_000, 4_400_000]);
    let n = n.min(max);
    let salt = s.u64();
    judge_long(&hot, &never, n, salt, stats)
}

/// Byte-level entry for the fuzz target.
pub fn fuzz_entry(bytes: &[u8]) -> Verdict {
    let mut st = Stats::new();
    check(bytes, &mut st)
}

pub fn run(tier: Tier, seed: u64, known: &Known) -> PropRun {
    let mut run = PropRun::new("exploration", RULE);
    run.assumptions = vec![
        "acceptance rule (nothing held, or held depth <= new depth => the new data is retrievable at once) is the property's 'shallower never replaces deeper, equal or deeper does'".into(),
        "a table that forgets entries is allowed by the statement ('returns either nothing or ...'); forgetting is counted, not judged".into(),
    ];
    let part = Part { name: "ops", cases: tier.pick(100_000, 1_000_000), min_len: 64, max_len: 6000, max_shrink: 6000, threads: threads() };
    let (st, fl) = run_part(&part, seed, known, check);
    run.stats.merge(st);
    if fl.is_some() {
        run.failure = fl;
        return run;
    }
    // long histories: the table filled with more than a million distinct keys
    let lmax = tier.pick(1_300_000u64, 4_400_000u64);
    let part = Part { name: "long", cases: tier.pick(16, 96), min_len: 64, max_len: 200, max_shrink: 8, threads: threads().min(8) };
    let (st, fl) = run_part(&part, seed, known, |b, st| {
        LONG_MAX.with(|c| c.set(lmax));
        check_long(b, st)
    });
    run.stats.merge(st);
    run.failure = fl;
    run
}

pub fn replay(part: &str, bytes: &[u8], case: &Value, stats: &mut Stats) -> Verdict {
    // structural replay: the saved op list (or the parameters of a long history)
    if let Some(r) = case.get("replay") {
        if r.get("long").and_then(|x| x.as_bool()) == Some(true) {
            let keys = |k: &str| -> Vec<u64> { r.get(k).and_then(|x| x.as_array()).map(|a| a.iter().filter_map(|v| v.as_str().and_then(|s| u64::from_str_radix(s, 16).ok())).collect()).unwrap_or_default() };
            let n = r.get("ops").and_then(|x| x.as_u64()).unwrap_or(0);
            let salt = r.get("salt").and_then(|x| x.as_str()).and_then(|s| u64::from_str_radix(s, 16).ok()).unwrap_or(0);
            return judge_long(&keys("hot_keys"), &keys("never_stored_keys"), n, salt, stats);
        }
        let keys = |k: &str| -> Vec<u64> { r.get(k).and_then(|x| x.as_array()).map(|a| a.iter().filter_map(|v| v.as_str().and_then(|s| u64::from_str_radix(s, 16).ok())).collect()).unwrap_or_default() };
        if let Some(ops) = r.get("ops").and_then(|x| x.as_array()) {
            let ops: Vec<Op> = ops.iter().filter_map(op_from_json).collect();
            return judge_ops(&keys("hot_keys"), &keys("never_stored_keys"), &ops, stats);
        }
    }
    if part == "long" {
        LONG_MAX.with(|c| c.set(4_400_000));
        return check_long(bytes, stats);
    }
    check(bytes, stats)
}
