//! C15 — transposition table returns only what was stored for that key, deepest wins.
//! Model-based: op histories against a HashMap model, compared after every op.

use crate::props::threads;
use crate::runner::{run_part, Failure, Known, Part, Verdict};
use crate::src::Src;
use crate::stats::{hash_of, Stats};
use crate::{PropRun, Tier};
use flsrc::moves::{Move, MoveType};
use flsrc::pieces::Piece;
use flsrc::transposition::{Bounds, TranspositionTable};
use serde_json::{json, Value};
use std::collections::HashMap;

pub const RULE: &str = "histories of 0..400 Store{key,eval,move,depth,bound} / Retrieve{key} ops on one table; keys from a universe built for interference (4..12 hot keys; keys agreeing in their low 8/16/20/24/32 bits or high bits or differing in one bit; 0 and u64::MAX; fresh random keys); depths 0..255 biased to equal/adjacent; arbitrary i32 scores incl. mate range. Oracle: HashMap model with 'accept iff no entry or old.depth <= new.depth'; after EVERY op retrieve(k) for the op's key, all hot keys and 4 never-stored keys must equal the model (None or all five fields). Non-trivial = history contains for one key a store that must be rejected (shallower after deeper) AND one accepted at equal depth, and >=2 distinct keys sharing low 16 bits; distinct by op-list hash.";

#[derive(Clone, Copy, PartialEq, Debug)]
struct Ent {
    key: u64,
    eval: i32,
    mv: Option<(u8, u8, u8, u8)>,
    depth: u8,
    bound: u8,
}

fn piece(i: u8) -> Piece {
    [Piece::Pawn, Piece::Knight, Piece::Bishop, Piece::Rook, Piece::Queen, Piece::King][(i % 6) as usize]
}
fn mtype(i: u8) -> MoveType {
    [MoveType::Quiet, MoveType::Capture, MoveType::EnPassant, MoveType::Castle, MoveType::Promotion][(i % 5) as usize]
}
fn bound(i: u8) -> Bounds {
    [Bounds::Exact, Bounds::Lower, Bounds::Upper][(i % 3) as usize]
}

fn gen_universe(s: &mut Src) -> Vec<u64> {
    let n = 4 + s.below(9);
    let mut keys = Vec::new();
    let base = s.u64();
    keys.push(base);
    while keys.len() < n {
        let r = s.u64();
        let k = match s.below(9) {
            0 => (r & !0xff) | (base & 0xff),
            1 => (r & !0xffff) | (base & 0xffff),
            2 => (r & !0xfffff) | (base & 0xfffff),
            3 => (r & !0xffffff) | (base & 0xffffff),
            4 => (r & !0xffff_ffff) | (base & 0xffff_ffff),
            5 => (r & 0xffff_ffff) | (base & !0xffff_ffff),
            6 => base ^ (1u64 << s.below(64)),
            7 => *s.pick(&[0u64, u64::MAX, 1, 1 << 63]),
            _ => r,
        };
        keys.push(k);
    }
    keys
}

fn check(bytes: &[u8], stats: &mut Stats) -> Verdict {
    let mut s = Src::new(bytes);
    let hot = gen_universe(&mut s);
    let never: Vec<u64> = (0..4).map(|i| hot[0].rotate_left(7 * (i + 1)) ^ 0xa5a5_5a5a_dead_beef ^ i as u64).filter(|k| !hot.contains(k)).collect();
    let nops = s.below(401);
    let mut tt = TranspositionTable::new();
    let mut model: HashMap<u64, Ent> = HashMap::new();
    let mut stored_ever: Vec<u64> = Vec::new();
    let mut last_depth: u8 = s.u8();
    let mut log: Vec<Value> = Vec::new();
    let (mut saw_reject, mut saw_equal_accept) = (false, false);
    let mut ophash = 0u64;
    for opi in 0..nops {
        let key = if s.chance(88) { hot[s.below(hot.len())] } else { s.u64() };
        if never.contains(&key) {
            continue;
        }
        let is_store = s.chance(65);
        if is_store {
            let depth = match s.below(6) {
                0 => last_depth,
                1 => last_depth.wrapping_add(1),
                2 => last_depth.wrapping_sub(1),
                3 => model.get(&key).map(|e| e.depth).unwrap_or(0),
                4 => *s.pick(&[0u8, 1, 254, 255]),
                _ => s.u8(),
            };
            last_depth = depth;
            let eval = match s.below(4) {
                0 => s.u32() as i32,
                1 => i32::MAX - 1000 - s.below(70) as i32,
                2 => -(i32::MAX - 1000) + s.below(70) as i32,
                _ => s.below(4000) as i32 - 2000,
            };
            let mv = if s.chance(80) { Some((s.below(64) as u8, s.below(64) as u8, s.below(6) as u8, s.below(5) as u8)) } else { None };
            let b = s.below(3) as u8;
            let emv = mv.map(|(f, t, p, mt)| Move::new(f, t, piece(p), mtype(mt)));
            tt.store(key, eval, emv, depth, bound(b));
            let new = Ent { key, eval, mv, depth, bound: b };
            match model.get(&key) {
                None => {
                    model.insert(key, new);
                }
                Some(old) if old.depth <= depth => {
                    if old.depth == depth {
                        saw_equal_accept = true;
                    }
                    model.insert(key, new);
                }
                Some(_) => saw_reject = true,
            }
            if !stored_ever.contains(&key) {
                stored_ever.push(key);
            }
            log.push(json!({"op": "store", "key": format!("{:016x}", key), "eval": eval, "depth": depth, "bound": b, "move": format!("{:?}", mv)}));
            ophash = hash_of(&(ophash, 1u8, key, eval, depth, b, mv));
        } else {
            log.push(json!({"op": "retrieve", "key": format!("{:016x}", key)}));
            ophash = hash_of(&(ophash, 2u8, key));
        }
        stats.eval();
        // compare after every op: the op's key, all hot keys, the never-stored keys
        let mut probe: Vec<u64> = vec![key];
        probe.extend_from_slice(&hot);
        probe.extend_from_slice(&never);
        for k in probe {
            let got = tt.retrieve(k).map(|e| Ent {
                key: e.hash_key,
                eval: e.eval,
                mv: e.best_move.map(|m| (m.from, m.to, m.piece_type.index() as u8, match m.move_type {
                    MoveType::Quiet => 0,
                    MoveType::Capture => 1,
                    MoveType::EnPassant => 2,
                    MoveType::Castle => 3,
                    MoveType::Promotion => 4,
                })),
                depth: e.depth,
                bound: match e.bounds {
                    Bounds::Exact => 0,
                    Bounds::Lower => 1,
                    Bounds::Upper => 2,
                },
            });
            let want = model.get(&k).copied();
            if got != want {
                let sig = match (&got, &want) {
                    (Some(_), None) => "returned-for-never-stored-key",
                    (None, Some(_)) => "lost-entry",
                    (Some(g), Some(w)) if g.key != w.key => "entry-of-another-key",
                    (Some(g), Some(w)) if g.depth < w.depth => "shallower-replaced-deeper",
                    (Some(g), Some(w)) if g.depth > w.depth => "deeper-or-equal-not-accepted",
                    _ => "wrong-entry",
                };
                let tail: Vec<Value> = log.iter().rev().take(12).rev().cloned().collect();
                return Err(Failure::new(sig, json!({"after_op": opi, "probe_key": format!("{:016x}", k), "got": format!("{:?}", got), "model": format!("{:?}", want), "last_ops": tail, "ops_total": log.len()})));
            }
        }
    }
    let shared_low = {
        let mut v: Vec<u64> = stored_ever.iter().map(|k| k & 0xffff).collect();
        v.sort();
        v.windows(2).any(|w| w[0] == w[1])
    };
    if saw_reject {
        stats.class("has_rejected_store");
    }
    if saw_equal_accept {
        stats.class("has_equal_depth_accept");
    }
    if shared_low {
        stats.class("keys_sharing_low16");
    }
    if saw_reject && saw_equal_accept && shared_low {
        stats.nontrivial(&ophash);
    }
    stats.sample(|| json!({"ops": log.len(), "hot_keys": hot.iter().map(|k| format!("{:016x}", k)).collect::<Vec<_>>(), "first_ops": log.iter().take(6).cloned().collect::<Vec<_>>()}));
    Ok(())
}

/// Byte-level entry for the fuzz target.
pub fn fuzz_entry(bytes: &[u8]) -> Verdict {
    let mut st = Stats::new();
    check(bytes, &mut st)
}

pub fn run(tier: Tier, seed: u64, known: &Known) -> PropRun {
    let mut run = PropRun::new("exploration", RULE);
    run.assumptions = vec!["the model's acceptance rule (no entry, or old.depth <= new.depth) is the property's 'shallower never replaces deeper, equal or deeper does'".into()];
    let part = Part { name: "ops", cases: tier.pick(20_000, 1_000_000), min_len: 64, max_len: 6000, max_shrink: 6000, threads: threads() };
    let (st, fl) = run_part(&part, seed, known, check);
    run.stats.merge(st);
    run.failure = fl;
    run
}

pub fn replay(_part: &str, bytes: &[u8], _case: &Value, stats: &mut Stats) -> Verdict {
    check(bytes, stats)
}
