//! C05 — pruning, move ordering and caching never change the search value.

use crate::eng;
use crate::gen;
use crate::props::threads;
use crate::refsearch::{class, show, Abort, RefSearch, LOST, WON};
use crate::runner::{run_part, Failure, Known, Part, Verdict};
use crate::src::Src;
use crate::stats::Stats;
use crate::{PropRun, Tier};
use flsrc::search::Searcher;
use flsrc::transposition::{Bounds, Entry};
use refchess::Pos;
use serde_json::{json, Value};
use std::cell::Cell;
use std::collections::HashMap;

pub const RULE: &str = "valid positions biased to small quiescence trees (endgames 3..8 men, playout positions, placements <=18 men, motifs incl. in-check roots, single-move roots, roots next to mate/stalemate); configurations: (a) find_best_move(p,d,None) on a fresh Searcher, d in 1..3 (public API, iterative deepening); (b) verif_search_fixed(p,d), d in 4..5 on <=6 men, judged only if the deeper-entry-reuse counter is 0; (c) part promotion-grid, ENUMERATED: every K+P(seventh) v K ending with both kings within two squares of the pawn / promotion square, mover to move at d=2,3 and the other side to move at d=3 (thorough: 4), same oracle (an under-promotion being the only best move is counted). (e) part ep-transposition, constructed: a pawn of the mover on its second rank with an enemy pawn on an adjacent file two ranks ahead (every file, both directions, either colour), kings and one or two men a side on derived squares, FIXED depth 4 (a quarter: 5): the lines 'push, x, m' and 'm, x, push' reach the same placement with and without the en-passant right. (d) part geometry-grid, ENUMERATED (quick tier a seed-dependent share): positions of the check-geometry grid (grid.rs) at d=1,2 and their boxed mates (every kind of checking move turned into a mate) at d=1..3. Oracle: plain minimax V(p,d) over the reference rules with the engine's own evaluation at quiescence leaves (no pruning/ordering/caching), exact integer equality (scores beyond +-32767 as WON/LOST); returned move must be legal and attain V; every table entry left behind whose key matches a tree position must be a true (depth,bound,score) claim about V. Cases whose reference tree exceeds the node cap are excluded and counted. Non-trivial = root has >=2 legal moves, V not WON/LOST, >=1 beta cut-off, and for d>=2 >=1 table probe that found an entry; distinct by (FEN, depth, config).";

thread_local! {
    pub static REF_CAP: Cell<u64> = Cell::new(300_000);
}

pub struct EngineRun {
    pub score: i32,
    pub mv: Option<String>,
    pub nodes: u64,
    pub cutoffs: u64,
    pub tt_found: u64,
    pub tt_hits: u64,
    pub deeper_hits: u64,
}

/// Runs one search on `searcher`, catching panics (incl. the hard node cap).
pub fn engine_search(searcher: &mut Searcher, p: &Pos, depth: u8, fixed: bool, hard_cap: u64) -> Result<EngineRun, String> {
    let b = eng::to_board(p);
    searcher.verif_set_hard_cap(Some(hard_cap));
    let before = (searcher.verif.cutoffs.get(), searcher.verif.tt_found.get(), searcher.verif.tt_hits.get(), searcher.verif.tt_deeper_hits.get());
    let r = std::panic::catch_unwind(std::panic::AssertUnwindSafe(|| {
        if fixed {
            searcher.verif_search_fixed(&b, depth)
        } else {
            searcher.find_best_move(&b, depth, None)
        }
    }));
    match r {
        Ok((score, mv)) => Ok(EngineRun {
            score,
            mv: mv.map(|m| m.to_algebraic()),
            nodes: searcher.verif_nodes(),
            cutoffs: searcher.verif.cutoffs.get() - before.0,
            tt_found: searcher.verif.tt_found.get() - before.1,
            tt_hits: searcher.verif.tt_hits.get() - before.2,
            deeper_hits: searcher.verif.tt_deeper_hits.get() - before.3,
        }),
        Err(pn) => Err(crate::panic_text(&pn)),
    }
}

pub fn bound_name(b: &Bounds) -> &'static str {
    match b {
        Bounds::Exact => "Exact",
        Bounds::Lower => "Lower",
        Bounds::Upper => "Upper",
    }
}

/// Is the entry a true statement about V(q, entry.depth)?
pub fn claim_holds(e: &Entry, v: i32) -> bool {
    let c = class(e.eval);
    match e.bounds {
        Bounds::Exact => c == v,
        Bounds::Lower => v >= c,
        Bounds::Upper => v <= c,
    }
}

/// Table audit: every entry whose key equals the hash of a position of the enumerated tree must
/// be a true claim about that position.  Returns the number of entries audited.
pub fn audit_table(searcher: &Searcher, rs: &mut RefSearch, tree: &[Pos], stats: &mut Stats, ctx: &Value) -> Result<u64, Failure> {
    let mut by_key: HashMap<u64, &Pos> = HashMap::new();
    for q in tree {
        by_key.insert(searcher.verif_hash(&eng::to_board(q)), q);
    }
    let mut audited = 0;
    for e in searcher.verif_tt_entries() {
        let Some(q) = by_key.get(&e.hash_key) else { continue };
        let q: Pos = (*q).clone();
        let v = match rs.v(&q, e.depth) {
            Ok(v) => v,
            Err(_) => {
                stats.exclude("audit: reference value over the node cap");
                continue;
            }
        };
        audited += 1;
        if !claim_holds(&e, v) {
            let aborted = searcher.verif.aborted_store_keys.contains(&e.hash_key);
            return Err(Failure::new(
                if aborted { "false-cached-claim-stored-after-deadline" } else { "false-cached-claim" },
                json!({"context": ctx, "position": eng::fen(&q), "entry": {"depth": e.depth, "bound": bound_name(&e.bounds), "eval": e.eval, "move": e.best_move.map(|m| m.to_algebraic())},
                       "reference_value_at_that_depth": show(v), "stored_after_deadline": aborted}),
            ));
        }
        if let Some(m) = e.best_move {
            let uci = m.to_algebraic();
            if q.find_uci(&uci).is_none() {
                return Err(Failure::new("cached-move-illegal", json!({"context": ctx, "position": eng::fen(&q), "move": uci})));
            }
        }
    }
    Ok(audited)
}

/// All positions of the depth-limited tree that the engine may store (remaining depth >= 1).
pub fn tree_positions(p: &Pos, d: u8, out: &mut Vec<Pos>, limit: usize) {
    if d == 0 || out.len() >= limit {
        return;
    }
    out.push(p.clone());
    if d == 1 {
        return;
    }
    for m in p.legal_moves() {
        tree_positions(&p.make(m), d - 1, out, limit);
    }
}

pub fn choose_depth(s: &mut Src, men: usize) -> (u8, bool) {
    if men <= 6 {
        match s.weighted(&[15, 25, 25, 20, 15]) {
            0 => (1, false),
            1 => (2, false),
            2 => (3, false),
            3 => (4, true),
            _ => (5, true),
        }
    } else if men <= 10 {
        (1 + s.weighted(&[25, 40, 35]) as u8, false)
    } else if men <= 18 {
        (1 + s.weighted(&[40, 45, 15]) as u8, false)
    } else {
        (1 + s.weighted(&[55, 45]) as u8, false)
    }
}

pub fn abort_reason(a: &Abort) -> &'static str {
    match a {
        Abort::NodeCap => "reference tree over the node cap",
        Abort::Cycle => "quiescence tree has a cycle (infinite)",
        Abort::TooDeep => "quiescence tree too deep",
    }
}

fn check(bytes: &[u8], stats: &mut Stats) -> Verdict {
    let mut s = Src::new(bytes);
    let (p, kind) = gen::g_small(&mut s);
    let men = p.men();
    let (d, fixed) = choose_depth(&mut s, men);
    judge(&p, d, fixed, kind, stats)
}

/// The oracle for one (position, depth, configuration).
pub fn judge(p: &Pos, d: u8, fixed: bool, kind: &str, stats: &mut Stats) -> Verdict {
    let p = p.clone();
    let cfg = if fixed { "fixed" } else { "iterative" };
    let fen = eng::fen(&p);
    let mut rs = RefSearch::new(REF_CAP.with(|c| c.get()));
    let v = match rs.v(&p, d) {
        Ok(v) => v,
        Err(a) => {
            stats.exclude(abort_reason(&a));
            stats.class(&format!("excluded_d{}_{}", d, kind));
            return Ok(());
        }
    };
    let legal = p.legal_moves();
    let mut searcher = Searcher::new();
    let hard_cap = rs.nodes * 4 + 200_000;
    let run = match engine_search(&mut searcher, &p, d, fixed, hard_cap) {
        Ok(r) => r,
        Err(msg) => {
            if msg.contains("node hard cap") {
                stats.exclude("engine search over the node watchdog");
                return Ok(());
            }
            return Err(Failure::new("search-panic", json!({"fen": fen, "depth": d, "config": cfg, "panic": msg})));
        }
    };
    stats.eval();
    if run.deeper_hits > 0 {
        stats.exclude("deeper cached result reused (engine legitimately reports a deeper value)");
        return Ok(());
    }
    let ctx = json!({"fen": fen, "depth": d, "config": cfg, "gen": kind});
    let got = class(run.score);
    if got != v {
        return Err(Failure::new(
            "wrong-search-value",
            json!({"fen": fen, "depth": d, "config": cfg, "engine_score": run.score, "engine_class": show(got), "reference_value": show(v), "engine_move": run.mv, "reference_nodes": rs.nodes, "engine_nodes": run.nodes}),
        ));
    }
    if legal.is_empty() {
        if run.mv.is_some() {
            return Err(Failure::new("move-at-terminal-root", json!({"fen": fen, "depth": d, "config": cfg, "engine_move": run.mv})));
        }
    } else {
        let Some(uci) = run.mv.clone() else {
            return Err(Failure::new("no-move-with-legal-moves", json!({"fen": fen, "depth": d, "config": cfg, "score": run.score})));
        };
        let Some(m) = p.find_uci(&uci) else {
            return Err(Failure::new("illegal-move-returned", json!({"fen": fen, "depth": d, "config": cfg, "engine_move": uci})));
        };
        let mv_val = match rs.move_value(&p, m, d) {
            Ok(x) => x,
            Err(_) => v,
        };
        if mv_val != v {
            return Err(Failure::new(
                "move-does-not-attain-value",
                json!({"fen": fen, "depth": d, "config": cfg, "engine_move": uci, "value_of_that_move": show(mv_val), "reference_value": show(v), "engine_score": run.score}),
            ));
        }
    }
    // table audit
    let mut tree = Vec::new();
    tree_positions(&p, d, &mut tree, 4000);
    let audited = audit_table(&searcher, &mut rs, &tree, stats, &ctx)?;
    stats.class_n("table_entries_audited", audited);
    if let Some(why) = &rs.cross_check_failure {
        return Err(Failure::new("harness-reference-inconsistent", json!({"fen": fen, "why": why})));
    }
    stats.class_n("reference_leaf_cross_checks_definitional_vs_alphabeta", rs.cross_checked);
    stats.class_n("leaf_values_definitional_minimax", rs.leaves_definitional);
    stats.class_n("leaf_values_alphabeta_reference", rs.leaves_alphabeta);
    stats.class(if rs.leaves_alphabeta == 0 { "case_all_leaves_definitional" } else { "case_some_leaves_by_alphabeta_reference" });
    stats.class(&format!("depth_{}_{}", d, cfg));
    stats.class(&format!("gen_{}", kind));
    if p.in_check() {
        stats.class("root_in_check");
    }
    if legal.len() == 1 {
        stats.class("root_single_move");
    }
    if v == WON || v == LOST {
        stats.class("value_won_or_lost");
    }
    if legal.len() >= 2 && v != WON && v != LOST && run.cutoffs >= 1 && (d < 2 || run.tt_found >= 1) {
        stats.nontrivial(&(p.fen4(), d, fixed));
    }
    stats.sample(|| json!({"fen": fen, "depth": d, "config": cfg, "value": show(v), "move": run.mv, "engine_nodes": run.nodes, "reference_nodes": rs.nodes, "cutoffs": run.cutoffs, "tt_found": run.tt_found, "tt_hits": run.tt_hits}));
    Ok(())
}

/// Every ending "king and pawn on the seventh against king" with both kings within two squares
/// of the pawn / the promotion square, either side to move: the family in which the choice of
/// the promotion piece decides the value (a queen stalemates, a rook mates).  Enumerated rather
/// than sampled: the deciding positions are a handful out of thousands.
pub fn promotion_grid(tier: Tier) -> Vec<(Pos, u8)> {
    use refchess::{sq_of, Color, Kind};
    let mut out = Vec::new();
    for us in [Color::W, Color::B] {
        let them = us.other();
        let (pr, qr) = if us == Color::W { (6, 7) } else { (1, 0) };
        for pf in 0..8 {
            for ekf in pf - 2..=pf + 2 {
                for ekr in [qr, if qr == 7 { 6 } else { 1 }, if qr == 7 { 5 } else { 2 }] {
                    for okf in pf - 2..=pf + 2 {
                        for okd in 0..=2 {
                            let okr = if us == Color::W { pr - okd } else { pr + okd };
                            let (Some(ps), Some(ek), Some(ok)) = (sq_of(pf, pr), sq_of(ekf, ekr), sq_of(okf, okr)) else { continue };
                            if ps == ek || ps == ok || ek == ok {
                                continue;
                            }
                            for stm in [us, them] {
                                let mut p = Pos::empty();
                                p.sq[ps as usize] = Some((us, Kind::P));
                                p.sq[ek as usize] = Some((them, Kind::K));
                                p.sq[ok as usize] = Some((us, Kind::K));
                                p.stm = stm;
                                if !p.is_valid() {
                                    continue;
                                }
                                if stm == us {
                                    out.push((p.clone(), 2));
                                    out.push((p, 3));
                                } else {
                                    out.push((p.clone(), 3));
                                    if tier == Tier::Thorough {
                                        out.push((p, 4));
                                    }
                                }
                            }
                        }
                    }
                }
            }
        }
    }
    out
}

/// Grid case: the general oracle, plus the measurement "an under-promotion is the only best move".
fn check_grid(item: &(Pos, u8), stats: &mut Stats) -> Verdict {
    let (p, d) = item;
    judge(p, *d, false, "promotion-grid", stats)?;
    if p.legal_moves().iter().any(|m| matches!(m.promo, Some(k) if k != refchess::Kind::Q)) {
        let mut rs = RefSearch::new(REF_CAP.with(|c| c.get()));
        let mut best_under = LOST;
        let mut best_other = LOST;
        for m in p.legal_moves() {
            let Ok(v) = rs.move_value(p, m, *d) else { return Ok(()) };
            if matches!(m.promo, Some(k) if k != refchess::Kind::Q) {
                best_under = best_under.max(v);
            } else {
                best_other = best_other.max(v);
            }
        }
        if best_under > best_other {
            stats.class("grid_root_underpromotion_is_the_only_best_move");
            stats.nontrivial(&(p.fen4(), *d, "underpromotion"));
        }
    }
    Ok(())
}

/// Enumerated-by-construction family 'ep-transposition' for the fixed-depth searches 4..5: a pawn
/// of the mover on its second rank with an enemy pawn on an adjacent file two ranks ahead of it (the
/// double push can be answered by an en-passant capture), every file and both directions, either
/// colour, kings apart and one or two further men a side on derived squares so that both sides have
/// tempo moves: the lines 'push, x, m' and 'm, x, push' reach the same placement with and without
/// the en-passant right — the table must keep them apart.
pub fn ep_transposition_cases(per_shape: u64) -> Vec<(Pos, u8)> {
    use refchess::{sq_of, Color, Kind};
    let mut out = Vec::new();
    for file in 0..8i32 {
        for side in [-1i32, 1] {
            let cf = file + side;
            if !(0..8).contains(&cf) {
                continue;
            }
            for v in 0..per_shape {
                let mut h = crate::stats::hash_of(&(file, side, v, 0x51u8));
                let mut next = |n: u64| {
                    h ^= h << 13;
                    h ^= h >> 7;
                    h ^= h << 17;
                    (h >> 9) % n
                };
                let mut p = Pos::empty();
                p.stm = Color::W;
                p.sq[sq_of(file, 1).unwrap() as usize] = Some((Color::W, Kind::P));
                p.sq[sq_of(cf, 3).unwrap() as usize] = Some((Color::B, Kind::P));
                let mut place = |p: &mut Pos, m: (Color, Kind), next: &mut dyn FnMut(u64) -> u64| -> bool {
                    for _ in 0..30 {
                        let q = next(64) as u8;
                        if p.sq[q as usize].is_some() || (m.1 == Kind::P && (q < 8 || q >= 56)) {
                            continue;
                        }
                        // keep the pushing pawn's path free
                        if q == sq_of(file, 2).unwrap() || q == sq_of(file, 3).unwrap() {
                            continue;
                        }
                        p.sq[q as usize] = Some(m);
                        return true;
                    }
                    false
                };
                let mut ok = place(&mut p, (Color::W, Kind::K), &mut next) && place(&mut p, (Color::B, Kind::K), &mut next);
                let wextra = [Kind::N, Kind::B, Kind::N, Kind::R][next(4) as usize];
                ok = ok && place(&mut p, (Color::W, wextra), &mut next);
                if next(3) > 0 {
                    let bextra = [Kind::N, Kind::B, Kind::P][next(3) as usize];
                    ok = ok && place(&mut p, (Color::B, bextra), &mut next);
                }
                if !ok || !p.is_valid() || p.in_check() {
                    continue;
                }
                let push = refchess::Mv { from: sq_of(file, 1).unwrap(), to: sq_of(file, 3).unwrap(), promo: None };
                if !p.legal_moves().contains(&push) {
                    continue;
                }
                let d = if v % 4 == 3 { 5 } else { 4 };
                out.push((if v % 2 == 0 { p.clone() } else { p.mirror() }, d));
            }
        }
    }
    out
}

pub fn run(tier: Tier, seed: u64, known: &Known) -> PropRun {
    let mut run = PropRun::new("exploration", RULE);
    run.assumptions = vec![
        "the engine's static evaluation is a pure function of the position (C14) and is used as the leaf scorer of the reference".into(),
        "reference rules validated against published perft data; reference search has no pruning, ordering, caching or iteration".into(),
        "positions whose reference tree exceeds the node cap are excluded and counted (heavy tactical middlegames are under-represented at depth >= 3)".into(),
    ];
    let cap = tier.pick(60_000u64, 1_000_000u64);
    run.extra.insert("reference_node_cap".into(), json!(cap));
    let part = Part { name: "search", cases: tier.pick(2_000, 24_000), min_len: 24, max_len: 500, max_shrink: 400, threads: threads() };
    let (st, fl) = run_part(&part, seed, known, |b, st| {
        REF_CAP.with(|c| c.set(cap));
        check(b, st)
    });
    run.stats.merge(st);
    run.failure = fl;
    if run.failure.is_some() {
        return run;
    }
    // the check-geometry grid (grid.rs) and its boxed mates (c08::grid_mates): every kind of special
    // move one or two plies from the root of a search — quick tier a seed-dependent share
    {
        let share: u64 = tier.pick(120, 2);
        let items: Vec<crate::grid::GridItem> = crate::grid::items().into_iter().filter(|it| it.fam != 4 && (crate::stats::hash_of(it) ^ seed) % (if it.fam == 2 || it.fam == 7 { share / 8 + 1 } else { share }) == 0).collect();
        run.stats.class_n("geometry_grid_items_taken", items.len() as u64);
        let (st, fl) = crate::runner::run_enumerated("geometry-grid", &items, threads(), seed, known, |it, st| {
            REF_CAP.with(|c| c.set(cap));
            eng::set_counter_wish(0, 1);
            let h = crate::stats::hash_of(it);
            if let Some(p) = crate::grid::build(it) {
                if !p.legal_moves().is_empty() {
                    judge(&p, 1 + (h % 2) as u8, false, "geometry-grid", st)?;
                }
            }
            for (j, (q, _, _)) in crate::props::c08::grid_mates(it).iter().enumerate().take(2) {
                judge(q, 1 + ((h >> (8 + j)) % 3) as u8, false, "geometry-grid-boxed-mate", st)?;
            }
            Ok(())
        });
        run.stats.merge(st);
        run.failure = fl;
        if run.failure.is_some() {
            return run;
        }
    }
    {
        let cases = ep_transposition_cases(tier.pick(24, 200));
        run.stats.class_n("ep_transposition_cases_constructed", cases.len() as u64);
        let big = tier.pick(400_000u64, 3_000_000u64);
        let (st, fl) = crate::runner::run_enumerated("ep-transposition", &cases, threads(), seed, known, |it, st| {
            REF_CAP.with(|c| c.set(big));
            eng::set_counter_wish(0, 1);
            judge(&it.0, it.1, true, "ep-transposition", st)
        });
        run.stats.merge(st);
        run.failure = fl;
        if run.failure.is_some() {
            return run;
        }
    }
    let grid = promotion_grid(tier);
    run.stats.class_n("promotion_grid_cases_enumerated", grid.len() as u64);
    let (st, fl) = crate::runner::run_enumerated("promotion-grid", &grid, threads(), seed, known, |it, st| {
        REF_CAP.with(|c| c.set(cap));
        check_grid(it, st)
    });
    run.stats.merge(st);
    run.failure = fl;
    run
}

pub fn replay(_part: &str, bytes: &[u8], case: &Value, stats: &mut Stats) -> Verdict {
    REF_CAP.with(|c| c.set(5_000_000));
    // structural replay: (FEN, depth, configuration) as saved in the case
    let c = case.get("context").unwrap_or(case);
    if let (Some(fen), Some(d), Some(cfg)) = (c.get("fen").and_then(|x| x.as_str()), c.get("depth").and_then(|x| x.as_u64()), c.get("config").and_then(|x| x.as_str())) {
        if let Some(p) = eng::pos_from_saved_fen(fen) {
            return judge(&p, d as u8, cfg == "fixed", "replay", stats);
        }
    }
    check(bytes, stats)
}

/// Byte-level entry for the fuzz target (same decoder, same oracle, quick-tier reference cap).
pub fn fuzz_entry(bytes: &[u8]) -> Verdict {
    REF_CAP.with(|c| c.set(40_000));
    let mut st = Stats::new();
    check(bytes, &mut st)
}
