//! C08 — mate in one is played; avoidable mate in one is never allowed.

use crate::eng;
use crate::gen;
use crate::props::threads;
use crate::runner::{run_part, Failure, Known, Part, Verdict};
use crate::src::Src;
use crate::stats::Stats;
use crate::{PropRun, Tier};
use flsrc::search::Searcher;
use refchess::{Color, Kind, Mv, Pos};
use serde_json::{json, Value};

pub const RULE: &str = "two families, preconditions constructed and verified with the reference: (M) positions where the mover has >=1 mating move (heavy-piece vs exposed-king constructions, retractions of one move from generated checkmates, perturbed mate shapes incl. back-rank/smothered/pawn/promotion mates, plus whatever the general mixture contains), searched with find_best_move on a fresh Searcher at depth 1..4: the returned move must be in Mates(p) = legal moves after which the opponent is in check with no legal move; Part 'grid-mates' (enumerated; quick tier: a seed-dependent stratified share, thorough: all): items of the check-geometry grid with one of their checking moves turned into a mate by boxing the checked king in with men of its own side (kept only when the reference confirms the mate): mates by en-passant capture (direct and through the captured pawn's square), castling, promotion and under-promotion, discovery by every kind of blocker, and every single man, searched at depth 1..3; the rare kinds (and an eighth of the others) once more with a temptation on the board — an enemy queen or rook the mover could simply take. Part 'only-castle-mates': a seeded search (1 000 000 trials quick) for positions in which castling is the ONLY mate in one (enemy king near the castled king's square, two to five further men of the mover, up to two enemy men of which one is a rook or queen that can often be taken), each searched at depth 1, 2 and 3. Part 'corner-mates' (enumerated; quick tier a seed-dependent twelfth): the defending king in a corner with at most one man of its own next to it, the attacking king two or three squares away, one or two attacking minor pieces — every such position with a mate in one (family M) or, defender to move, with a mix of moves that do and do not allow one (family D): the material without pawns, rooks and queens. (D) positions where some legal moves allow a mate in one and at least one does not, searched at depth 2..3: the returned move must not be in Allows(p) = { m : Mates(p·m) != {} }. Positions whose search exceeds the node watchdog are excluded and counted. Non-trivial: (M) >=2 legal moves and >=1 non-mating move; (D) >=3 legal moves (both classes non-empty by construction); distinct by (FEN, depth).";

pub fn mates(p: &Pos) -> Vec<Mv> {
    p.legal_moves().into_iter().filter(|m| p.make(*m).is_mate()).collect()
}

pub fn allows(p: &Pos) -> Vec<Mv> {
    p.legal_moves().into_iter().filter(|m| !mates(&p.make(*m)).is_empty()).collect()
}

/// Strong side with heavy pieces against an exposed king.
fn g_heavy(s: &mut Src, strong_to_move: bool) -> Pos {
    let mut p = Pos::empty();
    let strong = if s.bool() { Color::W } else { Color::B };
    let weak = strong.other();
    // weak king: mostly on the edge
    let wk = if s.chance(70) {
        let e = s.below(28);
        let (f, r) = if e < 8 { (e, 0) } else if e < 16 { (e - 8, 7) } else if e < 22 { (0, e - 15) } else { (7, e - 21) };
        (r * 8 + f) as u8
    } else {
        s.below(64) as u8
    };
    p.sq[wk as usize] = Some((weak, Kind::K));
    let adj = |a: u8, b: u8| ((a % 8) as i32 - (b % 8) as i32).abs() <= 1 && ((a / 8) as i32 - (b / 8) as i32).abs() <= 1;
    let mut sk = s.below(64) as u8;
    let mut g = 0;
    while (sk == wk || adj(sk, wk)) && g < 64 {
        sk = (sk + 17) % 64;
        g += 1;
    }
    p.sq[sk as usize] = Some((strong, Kind::K));
    let n = 1 + s.below(3);
    for _ in 0..n {
        let q = s.below(64) as u8;
        if p.sq[q as usize].is_none() {
            p.sq[q as usize] = Some((strong, *s.pick(&[Kind::Q, Kind::R, Kind::R, Kind::Q, Kind::B, Kind::N])));
        }
    }
    // a few more men for both sides (own men block flight squares: smothered shapes)
    let m = s.below(6);
    for _ in 0..m {
        let q = s.below(64) as u8;
        let r = q / 8;
        if p.sq[q as usize].is_none() {
            let k = *s.pick(&[Kind::P, Kind::P, Kind::N, Kind::B, Kind::R]);
            if k == Kind::P && (r == 0 || r == 7) {
                continue;
            }
            let c = if s.chance(60) { weak } else { strong };
            p.sq[q as usize] = Some((c, k));
        }
    }
    p.stm = if strong_to_move { strong } else { weak };
    gen::repair(&mut p);
    p
}

/// Un-makes one non-capturing move of the side that delivered mate: the result has a mate in one.
fn retract(s: &mut Src, mated: &Pos) -> Option<Pos> {
    let mover = mated.stm.other();
    let mut cands: Vec<Pos> = Vec::new();
    for t in 0..64u8 {
        let Some((c, k)) = mated.sq[t as usize] else { continue };
        if c != mover || k == Kind::P {
            continue;
        }
        for f in 0..64u8 {
            if mated.sq[f as usize].is_some() {
                continue;
            }
            let mut q = mated.clone();
            q.sq[t as usize] = None;
            q.sq[f as usize] = Some((c, k));
            q.stm = mover;
            q.ep = None;
            if !q.is_valid() {
                continue;
            }
            let m = Mv { from: f, to: t, promo: None };
            if q.legal_moves().contains(&m) && q.make(m) == *mated {
                cands.push(q);
            }
        }
        if cands.len() > 40 {
            break;
        }
    }
    if cands.is_empty() {
        None
    } else {
        let i = s.below(cands.len());
        Some(cands.swap_remove(i))
    }
}

fn gen_m(s: &mut Src, stats: &mut Stats) -> Option<(Pos, &'static str)> {
    match s.weighted(&[35, 15, 35, 15]) {
        0 => {
            let p = g_heavy(s, true);
            if p.is_valid() && p.is_mate() {
                // already mate: use its retraction instead
                return retract(s, &p).map(|q| (q, "retraction"));
            }
            Some((p, "heavy"))
        }
        1 => {
            // find a checkmate, retract one move
            for _ in 0..6 {
                let p = g_heavy(s, false);
                if p.is_valid() && p.is_mate() {
                    return retract(s, &p).map(|q| (q, "retraction"));
                }
            }
            stats.exclude("no checkmate found to retract");
            None
        }
        2 => Some((gen::g_motif_n(s, 7), "mate-shape")),
        _ => Some((gen::g_small(s).0, "mixture")),
    }
}

fn run_engine(p: &Pos, d: u8) -> Result<Option<(i32, Option<String>, u64)>, Failure> {
    let b = eng::to_board(p);
    let mut searcher = Searcher::new();
    searcher.verif_set_hard_cap(Some(2_000_000));
    match std::panic::catch_unwind(std::panic::AssertUnwindSafe(|| searcher.find_best_move(&b, d, None))) {
        Ok((score, mv)) => Ok(Some((score, mv.map(|m| m.to_algebraic()), searcher.verif_nodes()))),
        Err(pn) => {
            let msg = crate::panic_text(&pn);
            if msg.contains("node hard cap") {
                Ok(None)
            } else {
                Err(Failure::new("search-panic", json!({"fen": eng::fen(&p), "depth": d, "panic": msg})))
            }
        }
    }
}

fn part_m(bytes: &[u8], stats: &mut Stats) -> Verdict {
    let mut s = Src::new(bytes);
    let Some((p, kind)) = gen_m(&mut s, stats) else { return Ok(()) };
    if !p.is_valid() {
        stats.exclude("generator produced an invalid position");
        return Ok(());
    }
    let ms = mates(&p);
    if ms.is_empty() {
        stats.exclude("no mate in one in the generated position");
        return Ok(());
    }
    let d = 1 + s.below(4) as u8;
    judge_m(&p, d, kind, stats)
}

/// (M): a position with a mate in one; the answer of a depth-d search must be a mating move.
pub fn judge_m(p: &Pos, d: u8, kind: &str, stats: &mut Stats) -> Verdict {
    let p = p.clone();
    let ms = mates(&p);
    if ms.is_empty() {
        stats.exclude("no mate in one in the position");
        return Ok(());
    }
    let legal = p.legal_moves();
    let Some((score, mv, nodes)) = run_engine(&p, d)? else {
        stats.exclude("engine search over the node watchdog");
        return Ok(());
    };
    stats.eval();
    let fen = eng::fen(&p);
    let mate_list: Vec<String> = ms.iter().map(|m| m.uci()).collect();
    let Some(uci) = mv else {
        return Err(Failure::new("no-move-returned", json!({"fen": fen, "depth": d, "mating_moves": mate_list})));
    };
    if !mate_list.contains(&uci) {
        return Err(Failure::new("mate-in-one-not-played", json!({"fen": fen, "depth": d, "engine_move": uci, "score": score, "mating_moves": mate_list, "gen": kind})));
    }
    stats.class(&format!("M_depth_{}", d));
    stats.class(&format!("M_gen_{}", kind));
    let info = p.info(ms[0]);
    if info.promo {
        stats.class("M_promotion_mate_available");
    }
    if legal.len() >= 2 && ms.len() < legal.len() {
        stats.nontrivial(&("M", p.fen4(), d));
    }
    stats.sample(|| json!({"family": "M", "fen": fen, "depth": d, "engine_move": uci, "mating_moves": mate_list, "legal_moves": legal.len(), "nodes": nodes}));
    Ok(())
}

fn part_d(bytes: &[u8], stats: &mut Stats) -> Verdict {
    let mut s = Src::new(bytes);
    let (p, kind) = match s.weighted(&[30, 45, 10, 15]) {
        0 => (g_heavy(&mut s, false), "heavy"),
        1 => {
            // un-make one move of the defender from a position with a mate in one: that move allows it
            let mut found = None;
            for _ in 0..4 {
                if let Some((m, _)) = gen_m(&mut s, stats) {
                    if m.is_valid() && !mates(&m).is_empty() {
                        if let Some(r) = retract(&mut s, &m) {
                            found = Some(r);
                            break;
                        }
                    }
                }
            }
            match found {
                Some(r) => (r, "one-ply-before-mate-in-one"),
                None => {
                    stats.exclude("no mate-in-one position found to retract from");
                    return Ok(());
                }
            }
        }
        2 => {
            let q = g_heavy(&mut s, true);
            let mut r = q.clone();
            r.stm = q.stm.other();
            r.ep = None;
            gen::repair(&mut r);
            (r, "heavy-flipped")
        }
        _ => (gen::g_small(&mut s).0, "mixture"),
    };
    if !p.is_valid() {
        stats.exclude("generator produced an invalid position");
        return Ok(());
    }
    let legal = p.legal_moves();
    if legal.len() < 2 {
        stats.exclude("fewer than two legal moves");
        return Ok(());
    }
    let al = allows(&p);
    if al.is_empty() || al.len() == legal.len() {
        stats.exclude(if al.is_empty() { "no move allows a mate in one" } else { "every move allows a mate in one" });
        return Ok(());
    }
    let d = 2 + s.below(2) as u8;
    judge_d(&p, d, kind, stats)
}

/// (D): some moves allow a mate in one and some do not; the answer must be one that does not.
pub fn judge_d(p: &Pos, d: u8, kind: &str, stats: &mut Stats) -> Verdict {
    let p = p.clone();
    let legal = p.legal_moves();
    let al = allows(&p);
    if legal.len() < 2 || al.is_empty() || al.len() == legal.len() {
        stats.exclude("not a mixed position");
        return Ok(());
    }
    let Some((score, mv, nodes)) = run_engine(&p, d)? else {
        stats.exclude("engine search over the node watchdog");
        return Ok(());
    };
    stats.eval();
    let fen = eng::fen(&p);
    let allow_list: Vec<String> = al.iter().map(|m| m.uci()).collect();
    let Some(uci) = mv else {
        return Err(Failure::new("no-move-returned", json!({"fen": fen, "depth": d})));
    };
    if allow_list.contains(&uci) {
        let refutation = mates(&p.make(p.find_uci(&uci).unwrap())).iter().map(|m| m.uci()).collect::<Vec<_>>();
        return Err(Failure::new(
            "avoidable-mate-in-one-allowed",
            json!({"fen": fen, "depth": d, "engine_move": uci, "score": score, "opponent_mates_with": refutation, "moves_allowing_mate": allow_list, "legal_moves": legal.len(), "gen": kind}),
        ));
    }
    stats.class(&format!("D_depth_{}", d));
    stats.class(&format!("D_gen_{}", kind));
    if legal.len() >= 3 {
        stats.nontrivial(&("D", p.fen4(), d));
    }
    stats.sample(|| json!({"family": "D", "fen": fen, "depth": d, "engine_move": uci, "moves_allowing_mate": allow_list.len(), "legal_moves": legal.len(), "nodes": nodes}));
    Ok(())
}

/// Mate-in-one positions for EVERY kind of checking move: an item of the check-geometry grid
/// (grid.rs), one of its checking moves, and the checked king boxed in by men of its own side on
/// its flight squares (several patterns of blocker kinds are tried; the result is kept only when the
/// reference confirms that the move mates).  Yields mates by en-passant capture (direct and through
/// the square of the captured pawn), by castling, by promotion and under-promotion (also backwards
/// through the vacated square), by discovery with every kind of blocker, and by every single man.
pub fn grid_mates(it: &crate::grid::GridItem) -> Vec<(Pos, Mv, &'static str)> {
    let mut out = Vec::new();
    let Some(p) = crate::grid::build(it) else { return out };
    for m in p.legal_moves() {
        let n = p.make(m);
        if !n.in_check() {
            continue;
        }
        let i = p.info(m);
        // the en-passant family is here for its en-passant captures (its other checks are those of families 0 and 1)
        if it.fam == 3 && !i.ep {
            continue;
        }
        let via_victim_only = i.ep && {
            let k = n.king_sq(n.stm).unwrap();
            let victim = refchess::sq_of(refchess::file_of(m.to), refchess::rank_of(m.from)).unwrap();
            let att = n.attackers(k, p.stm);
            // every checker looks at the king through the square the captured pawn stood on
            !att.is_empty() && att.iter().all(|a| {
                let (df, dr) = ((refchess::file_of(k) - refchess::file_of(*a)).signum(), (refchess::rank_of(k) - refchess::rank_of(*a)).signum());
                let mut f = refchess::file_of(*a) + df;
                let mut r = refchess::rank_of(*a) + dr;
                let mut through = false;
                while let Some(sq) = refchess::sq_of(f, r) {
                    if sq == k {
                        break;
                    }
                    if sq == victim {
                        through = true;
                    }
                    f += df;
                    r += dr;
                }
                through && *a != m.to
            })
        };
        let kind = if via_victim_only { "ep_discovering_through_the_captured_pawns_square" } else if i.ep { "ep" } else if i.castle { "castle" } else if i.promo { if m.promo == Some(Kind::Q) { "promotion" } else { "underpromotion" } } else if n.attackers(n.king_sq(n.stm).unwrap(), p.stm).iter().any(|a| *a != m.to) { "discovered" } else { "direct" };
        if n.is_mate() {
            out.push((p.clone(), m, kind));
            continue;
        }
        let def = n.stm;
        // flight squares: empty squares the king can legally step to (a king that can capture its
        // way out cannot be boxed in by its own men)
        let k = n.king_sq(def).unwrap();
        let evasions = n.legal_moves();
        if evasions.iter().any(|e| e.from != k || n.sq[e.to as usize].is_some()) {
            continue;
        }
        let flights: Vec<u8> = evasions.iter().map(|e| e.to).collect();
        let patterns: [&[Kind]; 5] = [&[Kind::P], &[Kind::N], &[Kind::B], &[Kind::R], &[Kind::P, Kind::N, Kind::B, Kind::R]];
        for pat in patterns {
            let mut q = p.clone();
            let mut ok = true;
            for (j, f) in flights.iter().enumerate() {
                let mut kd = pat[j % pat.len()];
                if kd == Kind::P && (*f < 8 || *f >= 56) {
                    kd = Kind::N;
                }
                if q.sq[*f as usize].is_some() {
                    ok = false;
                    break;
                }
                q.sq[*f as usize] = Some((def, kd));
            }
            if !ok || !q.is_valid() || !q.legal_moves().contains(&m) {
                continue;
            }
            if q.make(m).is_mate() {
                out.push((q, m, kind));
                break;
            }
        }
    }
    out
}

fn judge_grid(it: &crate::grid::GridItem, stats: &mut Stats) -> Verdict {
    eng::set_counter_wish(0, 1);
    let found = grid_mates(it);
    if found.is_empty() {
        stats.exclude("grid item without a checking move that can be turned into a mate");
        return Ok(());
    }
    let h = crate::stats::hash_of(it);
    for (j, (p, m, kind)) in found.iter().enumerate() {
        let d = 1 + ((h >> (4 * j)) % 3) as u8;
        stats.class(&format!("G_mate_by_{}", kind));
        judge_m(p, d, "grid", stats)?;
        // the same mate with a TEMPTATION on the board: an enemy queen or rook that the mover can
        // simply take (the mating move must be played all the same) — always for the rare kinds of
        // mating move, one in eight for the others
        let rare = !matches!(*kind, "direct" | "discovered");
        if rare || (h >> (20 + j)) % 8 == 0 {
            // castling mates are few (the grid has 24): each gets several temptations, at depth 1 and 2
            let variants: u64 = if *kind == "castle" { 10 } else { 1 };
            let mut seen: Vec<Pos> = Vec::new();
            for v in 0..variants {
                if let Some(q) = with_temptation(p, *m, h.rotate_left(j as u32 * 7).wrapping_add(v.wrapping_mul(0x9e37_79b9_7f4a_7c15))) {
                    if seen.contains(&q) {
                        continue;
                    }
                    seen.push(q.clone());
                    stats.class(&format!("G_mate_by_{}_with_a_free_capture_on_the_board", kind));
                    if variants > 1 && std::env::var("VERIF_DEBUG").is_ok() {
                        eprintln!("castle temptation: {} mate {}", q.fen4(), m.uci());
                    }
                    if variants > 1 {
                        judge_m(&q, 1, "grid-temptation", stats)?;
                        judge_m(&q, 2, "grid-temptation", stats)?;
                    } else {
                        judge_m(&q, 1 + ((h >> (30 + j)) % 3) as u8, "grid-temptation", stats)?;
                    }
                }
            }
        }
    }
    Ok(())
}

/// `p` plus an enemy queen or rook on a square where the mover can capture it, such that `m` still
/// mates (verified by the reference); None if no such square is found among the tried ones.
fn with_temptation(p: &Pos, m: Mv, h: u64) -> Option<Pos> {
    let def = p.stm.other();
    for i in 0..24u64 {
        let t = ((h >> 3).wrapping_add(i * 11) % 64) as u8;
        if p.sq[t as usize].is_some() {
            continue;
        }
        let kind = if (h >> 1) & 1 == 0 { Kind::Q } else { Kind::R };
        let mut q = p.clone();
        q.sq[t as usize] = Some((def, kind));
        if !q.is_valid() || q.in_check() != p.in_check() {
            continue;
        }
        let legal = q.legal_moves();
        if !legal.contains(&m) || !q.make(m).is_mate() {
            continue;
        }
        if !legal.iter().any(|c| c.to == t && c != &m) {
            continue;
        }
        return Some(q);
    }
    None
}

/// Enumerated 'minor-piece corner mates': the defending king in a corner, possibly with one man of
/// its own next to it (N, B or P: the self-block that makes a mate by minor pieces possible), the
/// attacking king two or three squares away, one attacking minor anywhere and possibly a second one
/// nearby.  Every such position with the attacker to move and a mate in one is judged as family M;
/// with the defender to move (single attacking minor), every position in which some moves allow a
/// mate in one and some do not, as family D.  This is the material where no pawn, rook or queen is
/// on the board.
fn corner_mate_positions() -> Vec<(Pos, bool)> {
    let mut out = Vec::new();
    let dist = |a: u8, b: u8| ((a % 8) as i32 - (b % 8) as i32).abs().max(((a / 8) as i32 - (b / 8) as i32).abs());
    for bk in [0u8, 7, 56, 63] {
        let adj: Vec<u8> = (0..64u8).filter(|s| dist(*s, bk) == 1).collect();
        let near: Vec<u8> = (0..64u8).filter(|s| dist(*s, bk) >= 2 && dist(*s, bk) <= 3).collect();
        let mut blockers: Vec<Option<(u8, Kind)>> = vec![None];
        for a in &adj {
            for k in [Kind::N, Kind::B, Kind::P] {
                if k == Kind::P && (*a < 8 || *a >= 56) {
                    continue;
                }
                blockers.push(Some((*a, k)));
            }
        }
        for blk in &blockers {
            for ak in &near {
                for k1 in [Kind::N, Kind::B] {
                    for s1 in 0..64u8 {
                        let mut base = Pos::empty();
                        base.sq[bk as usize] = Some((Color::B, Kind::K));
                        base.sq[*ak as usize] = Some((Color::W, Kind::K));
                        if let Some((a, k)) = blk {
                            if base.sq[*a as usize].is_some() {
                                continue;
                            }
                            base.sq[*a as usize] = Some((Color::B, *k));
                        }
                        if base.sq[s1 as usize].is_some() {
                            continue;
                        }
                        base.sq[s1 as usize] = Some((Color::W, k1));
                        // attacker to move
                        let mut p = base.clone();
                        p.stm = Color::W;
                        if p.is_valid() && !mates(&p).is_empty() {
                            out.push((p, true));
                        }
                        // defender to move: a mix of moves that do and do not allow a mate in one
                        let mut d = base.clone();
                        d.stm = Color::B;
                        if d.is_valid() {
                            let legal = d.legal_moves();
                            if legal.len() >= 2 {
                                let al = allows(&d);
                                if !al.is_empty() && al.len() < legal.len() {
                                    out.push((d, false));
                                }
                            }
                        }
                        // a second attacking minor nearby
                        for k2 in [Kind::N, Kind::B] {
                            for s2 in &near {
                                if base.sq[*s2 as usize].is_some() {
                                    continue;
                                }
                                let mut q = base.clone();
                                q.sq[*s2 as usize] = Some((Color::W, k2));
                                q.stm = Color::W;
                                if q.is_valid() && !mates(&q).is_empty() {
                                    out.push((q, true));
                                }
                            }
                        }
                    }
                }
            }
        }
    }
    // both colours as the attacker
    let mirrored: Vec<(Pos, bool)> = out.iter().map(|(p, m)| (p.mirror(), *m)).collect();
    out.extend(mirrored);
    out.sort_by(|a, b| a.0.fen4().cmp(&b.0.fen4()));
    out.dedup_by(|a, b| a.0 == b.0);
    out
}

/// Positions in which castling is the ONLY mate in one: found by a seeded search — the enemy king
/// near the castled king's new square, the mover's king and rook at home with the right, two to
/// five further men of the mover (knights, bishops, pawns, a queen at times) on derived squares and
/// up to two enemy men (one of them a rook or queen the mover can take: the temptation); kept when
/// the reference says that the set of mating moves is exactly the castling move.
pub fn only_castle_mates(seed: u64, trials: u64) -> Vec<Pos> {
    let mut out: Vec<Pos> = Vec::new();
    let mut h = seed ^ 0x5bd1_e995_9e37_79b9;
    let mut next = |n: u64| {
        h ^= h << 13;
        h ^= h >> 7;
        h ^= h << 17;
        (h >> 11) % n
    };
    for t in 0..trials {
        let kingside = t % 2 == 0;
        let mut p = Pos::empty();
        p.stm = Color::W;
        p.sq[4] = Some((Color::W, Kind::K));
        if kingside {
            p.sq[7] = Some((Color::W, Kind::R));
            p.castle[0] = true;
        } else {
            p.sq[0] = Some((Color::W, Kind::R));
            p.castle[1] = true;
        }
        // enemy king two to four ranks up, near the file the rook arrives on
        let rook_file: i32 = if kingside { 5 } else { 3 };
        let kf = (rook_file + next(3) as i32 - 1).clamp(0, 7);
        let kr = 2 + next(3) as i32;
        let ks = (kr * 8 + kf) as u8;
        p.sq[ks as usize] = Some((Color::B, Kind::K));
        let n_own = 2 + next(4);
        for _ in 0..n_own {
            let q = next(64) as u8;
            if p.sq[q as usize].is_some() {
                continue;
            }
            let k = [Kind::N, Kind::N, Kind::B, Kind::P, Kind::P, Kind::P, Kind::Q][next(7) as usize];
            if k == Kind::P && (q < 8 || q >= 56) {
                continue;
            }
            p.sq[q as usize] = Some((Color::W, k));
        }
        let n_enemy = next(3);
        for i in 0..n_enemy {
            let q = next(64) as u8;
            if p.sq[q as usize].is_some() {
                continue;
            }
            let k = if i == 0 { [Kind::R, Kind::Q][next(2) as usize] } else { [Kind::P, Kind::N, Kind::B][next(3) as usize] };
            if k == Kind::P && (q < 8 || q >= 56) {
                continue;
            }
            p.sq[q as usize] = Some((Color::B, k));
        }
        if !p.is_valid() || p.in_check() {
            continue;
        }
        let ms = mates(&p);
        if ms.len() == 1 && p.info(ms[0]).castle {
            out.push(p);
        }
    }
    let mirrored: Vec<Pos> = out.iter().map(|p| p.mirror()).collect();
    out.extend(mirrored);
    out
}

pub fn run(tier: Tier, seed: u64, known: &Known) -> PropRun {
    let mut run = PropRun::new("exploration", RULE);
    run.assumptions = vec![
        "Mates(p) and Allows(p) are computed entirely by the perft-validated reference".into(),
        "searches run in-process through the public find_best_move on a fresh Searcher".into(),
    ];
    let parts: [(&str, u64, usize, fn(&[u8], &mut Stats) -> Verdict); 2] = [("M", tier.pick(30_000, 1_000_000), 300, part_m), ("D", tier.pick(16_000, 500_000), 400, part_d)];
    // enumerated part first: mates by every kind of checking move (boxed check-geometry grid); the
    // quick tier takes a seed-dependent stratified share of the grid, the thorough tier all of it
    let all = crate::grid::items();
    let share = |it: &crate::grid::GridItem| -> u64 {
        match it.fam {
            2 => 1,
            4 | 6 | 7 => u64::MAX,
            3 => tier.pick(3, 1),
            _ => tier.pick(10, 1),
        }
    };
    let items: Vec<crate::grid::GridItem> = all.into_iter().filter(|it| (crate::stats::hash_of(it) ^ seed) % share(it) == 0).collect();
    run.stats.class_n("G_grid_items_taken", items.len() as u64);
    let (st, fail) = crate::runner::run_enumerated("grid-mates", &items, threads(), seed, known, |it, st| judge_grid(it, st));
    run.stats.merge(st);
    if fail.is_some() {
        run.failure = fail;
        return run;
    }
    {
        let all = corner_mate_positions();
        run.stats.class_n("corner_mate_positions_enumerated", all.len() as u64);
        let share: u64 = tier.pick(12, 1);
        let items: Vec<(Pos, bool)> = all.into_iter().filter(|it| (crate::stats::hash_of(&it.0.fen4()) ^ seed) % share == 0).collect();
        let (st, fail) = crate::runner::run_enumerated("corner-mates", &items, threads(), seed, known, |it, st| {
            eng::set_counter_wish(0, 1);
            let h = crate::stats::hash_of(&it.0.fen4());
            if it.1 {
                st.class("K_minor_corner_mate_in_one");
                judge_m(&it.0, 1 + (h % 4) as u8, "corner-minor", st)
            } else {
                st.class("K_minor_corner_avoidable_mate_in_one");
                judge_d(&it.0, 2 + (h % 2) as u8, "corner-minor", st)
            }
        });
        run.stats.merge(st);
        if fail.is_some() {
            run.failure = fail;
            return run;
        }
    }
    {
        let items = only_castle_mates(seed, tier.pick(1_000_000, 10_000_000));
        run.stats.class_n("positions_in_which_castling_is_the_only_mate_found", items.len() as u64);
        let (st, fail) = crate::runner::run_enumerated("only-castle-mates", &items, threads(), seed, known, |p, st| {
            eng::set_counter_wish(0, 1);
            st.class("castling_is_the_only_mate_in_one");
            let capture_available = p.legal_moves().iter().any(|m| p.info(*m).capture);
            if capture_available {
                st.class("castling_is_the_only_mate_in_one_and_a_capture_is_available");
            }
            for d in 1..=3u8 {
                judge_m(p, d, "only-castle-mate", st)?;
            }
            Ok(())
        });
        run.stats.merge(st);
        if fail.is_some() {
            run.failure = fail;
            return run;
        }
    }
    for (name, cases, max_len, f) in parts {
        let part = Part { name, cases, min_len: 16, max_len, max_shrink: 300, threads: threads() };
        let (st, fail) = run_part(&part, seed, known, f);
        run.stats.merge(st);
        if fail.is_some() {
            run.failure = fail;
            break;
        }
    }
    run
}

pub fn replay(part: &str, bytes: &[u8], case: &Value, stats: &mut Stats) -> Verdict {
    if let (Some(fen), Some(d)) = (case.get("fen").and_then(|x| x.as_str()), case.get("depth").and_then(|x| x.as_u64())) {
        if let Some(p) = eng::pos_from_saved_fen(fen) {
            return if part == "D" { judge_d(&p, d as u8, "replay", stats) } else { judge_m(&p, d as u8, "replay", stats) };
        }
    }
    match part {
        "D" => part_d(bytes, stats),
        _ => part_m(bytes, stats),
    }
}

/// Byte-level entry for the fuzz target (first byte selects the family).
pub fn fuzz_entry(bytes: &[u8]) -> Verdict {
    let mut st = Stats::new();
    if bytes.first().map(|b| b & 1 == 1).unwrap_or(false) {
        part_d(&bytes[1..], &mut st)
    } else {
        part_m(bytes.get(1..).unwrap_or(&[]), &mut st)
    }
}
