//! C06 — a search cut off by the clock leaves nothing behind.
//! The deadline is a generated node count (SearchTimer hook), so "the moment the clock runs
//! out" is an integer that can be enumerated instead of a race.

use crate::eng;
use crate::gen;
use crate::props::c05::{abort_reason, audit_table, tree_positions};
use crate::props::threads;
use crate::refsearch::{class, show, RefSearch};
use crate::runner::{run_part, Failure, Known, Part, Verdict};
use crate::src::Src;
use crate::stats::Stats;
use crate::{PropRun, Tier};
use flsrc::board::Board;
use flsrc::search::Searcher;
use refchess::{Color, Kind, Pos};
use serde_json::{json, Value};
use std::cell::Cell;

pub const RULE: &str = "positions as in C05 (small quiescence trees, uninterrupted search of T nodes) x expiry points: ALL k in 1..T-1 when T <= the enumeration bound (exhaustive over crash points for that position), otherwise generated k stratified over the search; variants with 1..3 interrupted searches in a row (different k, depth or a neighbouring position of the same game) before the completed follow-up. For every interruption: fresh Searcher, node-count deadline k, find_best_move (interrupted). Part 'last-iteration': many positions (tiny ones, pawn endings above all, searched to depth 5..7, small ones to 3..5; only positions whose uninterrupted search reuses no deeper cached result), 14 deadlines each, all inside the LAST iteration (its start is read from the engine's own info record). Part 'last-iteration-large': positions of 8..22 men at depth 3..4, 12 deadlines inside the last iteration; the follow-up must report what a FRESH engine reports for the same fixed-depth search (the minimax value as far as C05 holds), both without deeper reuse. Oracle: (1) repetition-history snapshot after == before; (2) every table entry left behind is a true (depth,bound,score) claim about the reference minimax value of its position; (3) a completed follow-up fixed-depth search reports the reference value and a move attaining it (judged when no deeper cached entry was reused); (4) on K v K, K+N v K, K+B v K no follow-up of any depth reports |score| >= 32767. Non-trivial = 1 <= k < T and the interrupted search stored >= 1 entry; distinct by (FEN, depth, k-sequence).";

thread_local! {
    static REF_CAP: Cell<u64> = Cell::new(60_000);
    static ENUM_BOUND: Cell<u64> = Cell::new(1_200);
    static SAMPLED_KS: Cell<usize> = Cell::new(120);
    static MAX_T: Cell<u64> = Cell::new(8_000);
}

thread_local! {
    /// boards of one long game without a repeated position (700 plies from the start position)
    static LONG_HISTORY: Vec<flsrc::board::Board> = {
        let bytes: Vec<u8> = (0..4000u32).map(|i| (i.wrapping_mul(2654435761) >> 13) as u8).collect();
        let mut s = Src::new(&bytes);
        let (moves, _, _) = gen::long_game(&mut s, 700);
        let mut p = Pos::startpos();
        let mut v = vec![Board::new(&p.fen(0, 1))];
        for m in moves {
            p = p.make(m);
            v.push(Board::new(&p.fen(0, 1)));
        }
        v
    };
}

struct Interrupted {
    stored_entries: usize,
    nodes: u64,
}

/// One interrupted search with node deadline k on `searcher`.
fn interrupted_search(searcher: &mut Searcher, p: &Pos, d: u8, k: u64, ctx: &Value) -> Result<Interrupted, Failure> {
    let b = eng::to_board(p);
    let before = searcher.verif_repetition_snapshot();
    let entries_before = searcher.verif_tt_entries().len();
    searcher.verif_set_node_limit(Some(k));
    searcher.verif_set_hard_cap(Some(k + 2_000_000));
    let r = std::panic::catch_unwind(std::panic::AssertUnwindSafe(|| searcher.find_best_move(&b, d, None)));
    searcher.verif_set_node_limit(None);
    if let Err(pn) = r {
        return Err(Failure::new("interrupted-search-panic", json!({"context": ctx, "k": k, "panic": crate::panic_text(&pn)})));
    }
    let after = searcher.verif_repetition_snapshot();
    if after != before {
        return Err(Failure::new(
            "history-record-changed",
            json!({"context": ctx, "k": k, "history_len_before": before.len(), "history_len_after": after.len()}),
        ));
    }
    Ok(Interrupted { stored_entries: searcher.verif_tt_entries().len() - entries_before.min(searcher.verif_tt_entries().len()), nodes: searcher.verif_nodes() })
}

fn follow_up(searcher: &mut Searcher, rs: &mut RefSearch, p: &Pos, d: u8, ctx: &Value, ks: &[u64], stats: &mut Stats) -> Verdict {
    let b = eng::to_board(p);
    let v = match rs.v(p, d) {
        Ok(v) => v,
        Err(_) => return Ok(()),
    };
    let deeper0 = searcher.verif.tt_deeper_hits.get();
    searcher.verif_set_hard_cap(Some(rs.nodes * 4 + 500_000));
    let r = std::panic::catch_unwind(std::panic::AssertUnwindSafe(|| searcher.verif_search_fixed(&b, d)));
    let (score, mv) = match r {
        Ok(x) => x,
        Err(pn) => {
            let msg = crate::panic_text(&pn);
            if msg.contains("node hard cap") {
                stats.exclude("follow-up over the node watchdog");
                return Ok(());
            }
            return Err(Failure::new("follow-up-panic", json!({"context": ctx, "ks": ks, "panic": msg})));
        }
    };
    if searcher.verif.tt_deeper_hits.get() > deeper0 {
        stats.exclude("follow-up reused a deeper cached result");
        return Ok(());
    }
    stats.class("follow_ups_judged");
    let aborted_any = !searcher.verif.aborted_store_keys.is_empty();
    if class(score) != v {
        return Err(Failure::new(
            if aborted_any { "follow-up-wrong-value-after-aborted-stores" } else { "follow-up-wrong-value" },
            json!({"context": ctx, "interrupted_at_nodes": ks, "follow_up_depth": d, "follow_up_score": score, "reference_value": show(v), "stores_after_deadline": searcher.verif.aborted_store_keys.len()}),
        ));
    }
    let legal = p.legal_moves();
    if !legal.is_empty() {
        let Some(m) = mv.map(|m| m.to_algebraic()).and_then(|u| p.find_uci(&u)) else {
            return Err(Failure::new("follow-up-illegal-or-missing-move", json!({"context": ctx, "interrupted_at_nodes": ks, "move": mv.map(|m| m.to_algebraic())})));
        };
        if let Ok(mvv) = rs.move_value(p, m, d) {
            if mvv != v {
                return Err(Failure::new(
                    if aborted_any { "follow-up-move-not-attaining-after-aborted-stores" } else { "follow-up-move-not-attaining" },
                    json!({"context": ctx, "interrupted_at_nodes": ks, "move": m.uci(), "value_of_move": show(mvv), "reference_value": show(v)}),
                ));
            }
        }
    }
    Ok(())
}

fn check(bytes: &[u8], stats: &mut Stats) -> Verdict {
    let mut s = Src::new(bytes);
    let (p, kind) = gen::g_small(&mut s);
    let men = p.men();
    let d: u8 = if men <= 5 { 1 + s.below(4) as u8 } else if men <= 9 { 1 + s.below(3) as u8 } else { 1 + s.below(2) as u8 };
    let fen = eng::fen(&p);
    if p.legal_moves().is_empty() {
        stats.exclude("terminal root");
        return Ok(());
    }
    let mut rs = RefSearch::new(REF_CAP.with(|c| c.get()));
    if let Err(a) = rs.v(&p, d) {
        stats.exclude(abort_reason(&a));
        return Ok(());
    }
    // T = node count of the uninterrupted search
    let mut s0 = Searcher::new();
    s0.verif_set_hard_cap(Some(MAX_T.with(|c| c.get()) + 1));
    let b = eng::to_board(&p);
    let r = std::panic::catch_unwind(std::panic::AssertUnwindSafe(|| s0.find_best_move(&b, d, None)));
    if r.is_err() {
        stats.exclude("uninterrupted search larger than the per-case bound");
        return Ok(());
    }
    let t = s0.verif_nodes();
    drop(s0);
    if t < 3 {
        stats.exclude("search too small to interrupt");
        return Ok(());
    }
    let mut tree = Vec::new();
    tree_positions(&p, d, &mut tree, 6000);
    let exhaustive = t <= ENUM_BOUND.with(|c| c.get());
    let ks: Vec<u64> = if exhaustive {
        (1..t).collect()
    } else {
        let n = SAMPLED_KS.with(|c| c.get());
        let mut v: Vec<u64> = (0..n).map(|i| 1 + ((s.u16() as u64 + (i as u64) * 65536) * (t - 1)) / (n as u64 * 65536)).collect();
        v.dedup();
        v
    };
    stats.class(if exhaustive { "positions_all_expiry_points_enumerated" } else { "positions_sampled_expiry_points" });
    for (i, &k) in ks.iter().enumerate() {
        // variant: 1..3 interruptions in a row
        let extra = if i % 7 == 3 { 1 + (k % 2) as usize } else { 0 };
        let mut seq = vec![k];
        for j in 0..extra {
            seq.push(1 + (k * 7919 + j as u64 * 104729) % (t - 1));
        }
        let stored = judge_sequence(&p, d, &seq, t, kind, &mut rs, &tree, stats)?;
        if i == ks.len() / 2 {
            stats.sample(|| json!({"fen": fen, "depth": d, "uninterrupted_nodes": t, "expiry_points": if exhaustive { format!("all 1..{}", t - 1) } else { format!("{} sampled", ks.len()) }, "example_sequence": seq, "entries_left_behind": stored}));
        }
    }
    Ok(())
}

/// One case: a fresh engine, the interruptions `seq` (the first on (p, d); a second on (p, d or
/// d-1); a third on a neighbouring position of the same game), then the audit of the table left
/// behind and a completed follow-up.  Returns the number of entries the interruptions stored.
pub fn judge_sequence(p: &Pos, d: u8, seq: &[u64], t: u64, kind: &str, rs: &mut RefSearch, tree: &[Pos], stats: &mut Stats) -> Result<usize, Failure> {
    let fen = eng::fen(p);
    let legal = p.legal_moves();
    let k = seq[0];
    let ctx = json!({"fen": fen, "depth": d, "uninterrupted_nodes": t, "gen": kind, "interrupted_at_nodes": seq});
    let mut searcher = Searcher::new();
    // a game history recorded before the searches (distinct positions, once each: they cannot
    // make anything a repetition, but an interrupted search that pops one entry too many — or
    // leaves one behind — now changes a non-empty record)
    let preload = (k % 3) as usize;
    for j in 0..preload {
        // the recorded position must not occur anywhere in the searched tree
        let h = tree.get(tree.len().saturating_sub(1 + j)).map(|q| q.mirror()).filter(|m| m != p && !tree.contains(m));
        if let Some(m) = h {
            searcher.push_position(&eng::to_board(&m));
        }
    }
    // now and then a LONG recorded game (505..700 positions of a full-board game: nothing of it can
    // occur in the searched tree): a record that is bounded, windowed or indexed shows at that size
    if k % 13 == 6 {
        LONG_HISTORY.with(|h| {
            let n = 505 + (k as usize * 31) % 196;
            for b in h.iter().take(n) {
                searcher.push_position(b);
            }
        });
        stats.class("interruptions_with_a_recorded_game_of_more_than_500_positions");
    }
    if preload > 0 {
        stats.class("interruptions_with_a_recorded_game_history");
    }
    let it = interrupted_search(&mut searcher, p, d, k, &ctx)?;
    stats.eval();
    let mut stored = it.stored_entries;
    for (j, &k2) in seq.iter().skip(1).enumerate() {
        let (q, qd) = if j == 1 && d >= 2 {
            // a neighbouring position of the same game
            (p.make(legal[(k as usize) % legal.len()]), d - 1)
        } else {
            (p.clone(), if d > 1 && k % 3 == 0 { d - 1 } else { d })
        };
        if q.legal_moves().is_empty() {
            continue;
        }
        let it2 = interrupted_search(&mut searcher, &q, qd, k2, &ctx)?;
        stats.eval();
        stored += it2.stored_entries;
    }
    if seq.len() > 1 {
        stats.class("multi_interruption_sequences");
    }
    // (2) audit the table left behind
    if searcher.verif.tt_deeper_hits.get() == 0 {
        let audited = audit_table(&searcher, rs, tree, stats, &ctx)?;
        stats.class_n("table_entries_audited", audited);
    } else {
        // a deeper cached result was reused inside the interrupted searches: entries may then
        // legitimately describe a deeper tree than their nominal depth
        stats.exclude("audit skipped: deeper cached result reused during the interrupted searches");
    }
    stats.class_n("stores_made_after_deadline", searcher.verif.aborted_store_keys.len() as u64);
    // (3) completed follow-up.  When a deeper cached result was reused INSIDE the interrupted
    // searches, the entries they stored may carry values of deeper subtrees under their nominal
    // depth; a follow-up that reuses such an entry at its nominal depth (a same-depth hit, which the
    // deeper-hit counter of the follow-up does not see) legitimately reports a deeper value.  Such
    // cases are not judged by value (the history snapshot above was).
    if searcher.verif.tt_deeper_hits.get() > 0 {
        stats.exclude("follow-up not judged: deeper cached result reused during the interrupted searches");
        return Ok(stored);
    }
    follow_up(&mut searcher, rs, p, d, &ctx, seq, stats)?;
    if stored >= 1 && k < t {
        stats.nontrivial(&(p.fen4(), d, seq.to_vec()));
    }
    Ok(stored)
}

/// Oracle 4: positions whose material makes mate impossible.
fn check_bare(bytes: &[u8], stats: &mut Stats) -> Verdict {
    let mut s = Src::new(bytes);
    let mut p = Pos::empty();
    let wk = s.below(64) as u8;
    let mut bk = s.below(64) as u8;
    let adj = |a: u8, b: u8| ((a % 8) as i32 - (b % 8) as i32).abs() <= 1 && ((a / 8) as i32 - (b / 8) as i32).abs() <= 1;
    let mut g = 0;
    while adj(wk, bk) && g < 64 {
        bk = (bk + 13) % 64;
        g += 1;
    }
    p.sq[wk as usize] = Some((Color::W, Kind::K));
    p.sq[bk as usize] = Some((Color::B, Kind::K));
    match s.below(3) {
        0 => {}
        x => {
            let sq = s.below(64) as u8;
            if p.sq[sq as usize].is_none() {
                let c = if s.bool() { Color::W } else { Color::B };
                p.sq[sq as usize] = Some((c, if x == 1 { Kind::N } else { Kind::B }));
            }
        }
    }
    p.stm = if s.bool() { Color::W } else { Color::B };
    gen::repair(&mut p);
    if !p.is_valid() || p.legal_moves().is_empty() {
        stats.exclude("invalid or terminal bare position");
        return Ok(());
    }
    let d = 1 + s.below(5) as u8;
    let n_int = 1 + s.below(3);
    let ks: Vec<u64> = (0..n_int).map(|_| 1 + s.below(3000) as u64).collect();
    let fd = 1 + s.below(6) as u8;
    judge_bare(&p, d, &ks, fd, stats)
}

fn judge_bare(p: &Pos, d: u8, ks: &[u64], fd: u8, stats: &mut Stats) -> Verdict {
    let p = p.clone();
    let ks = ks.to_vec();
    let b = eng::to_board(&p);
    let fen = eng::fen(&p);
    let mut searcher = Searcher::new();
    for &k in &ks {
        let ctx = json!({"fen": fen, "depth": d});
        interrupted_search(&mut searcher, &p, d, k, &ctx)?;
        stats.eval();
    }
    searcher.verif_set_hard_cap(Some(3_000_000));
    let r = std::panic::catch_unwind(std::panic::AssertUnwindSafe(|| searcher.find_best_move(&b, fd, None)));
    let Ok((score, _)) = r else {
        stats.exclude("follow-up over the node watchdog");
        return Ok(());
    };
    let aborted_any = !searcher.verif.aborted_store_keys.is_empty();
    if score.abs() >= 32767 {
        return Err(Failure::new(
            if aborted_any { "mate-score-with-insufficient-material-after-aborted-stores" } else { "mate-score-with-insufficient-material" },
            json!({"fen": fen, "interrupted_depth": d, "interrupted_at_nodes": ks, "follow_up_depth": fd, "follow_up_score": score}),
        ));
    }
    stats.class("bare_material_follow_ups");
    stats.nontrivial(&(p.fen4(), d, ks.clone(), fd));
    stats.sample(|| json!({"fen": fen, "interrupted_depth": d, "interrupted_at_nodes": ks, "follow_up_depth": fd, "follow_up_score": score}));
    Ok(())
}

/// Part 'last-iteration': MANY positions, few expiry points each, all of them inside the LAST
/// iteration of a deeper iterative search (where an engine decides what to keep of an unfinished
/// iteration): tiny positions (pawn endings above all) searched to depth 5..7, small ones to 3..5, each probed first: only positions whose uninterrupted search reuses no deeper cached result are used.  The node count at which
/// the last-but-one iteration completed is read from the engine's own info record; 14 deadlines are
/// spread over the rest.  Same oracle (history snapshot, audit of every entry left behind,
/// completed follow-up).
fn check_last_iteration(bytes: &[u8], stats: &mut Stats) -> Verdict {
    let mut s = Src::new(bytes);
    // Candidates are probed with the uninterrupted search first: a position is used only when that
    // search reused NO deeper cached result (at depth >= 5 most positions do, through four-ply
    // shuffles back to the root; then neither the audit nor the follow-up can be judged) — so the
    // deadlines are spent where the oracle is exact.  Pawn endings, where most moves cannot be
    // taken back, are the main supply for the deep searches.
    let mut chosen = None;
    for _try in 0..8 {
        let p = match s.weighted(&[40, 20, 15, 25]) {
            0 => {
                // king and pawns
                let mut q = Pos::empty();
                q.stm = if s.bool() { Color::W } else { Color::B };
                let wk = s.below(64) as u8;
                let mut bk = s.below(64) as u8;
                let adj = |a: u8, b: u8| ((a % 8) as i32 - (b % 8) as i32).abs() <= 1 && ((a / 8) as i32 - (b / 8) as i32).abs() <= 1;
                let mut g = 0;
                while (adj(wk, bk) || wk == bk) && g < 64 {
                    bk = (bk + 23) % 64;
                    g += 1;
                }
                q.sq[wk as usize] = Some((Color::W, Kind::K));
                q.sq[bk as usize] = Some((Color::B, Kind::K));
                for _ in 0..1 + s.below(4) {
                    let sq = 8 + s.below(48) as u8;
                    if q.sq[sq as usize].is_none() {
                        q.sq[sq as usize] = Some((if s.bool() { Color::W } else { Color::B }, Kind::P));
                    }
                }
                gen::repair(&mut q);
                q
            }
            1 => {
                let n = 1 + s.below(2);
                gen::g_place(&mut s, n)
            }
            2 => {
                let n = 2 + s.below(2);
                gen::g_place(&mut s, n)
            }
            _ => gen::g_small(&mut s).0,
        };
        if !p.is_valid() || p.legal_moves().is_empty() {
            continue;
        }
        let men = p.men();
        let d: u8 = match men {
            0..=4 => 5 + s.below(3) as u8,
            5..=6 => 4 + s.below(4) as u8,
            7 => 3 + s.below(2) as u8,
            8..=10 => 3,
            _ => 2 + s.below(2) as u8,
        };
        // the uninterrupted search: total nodes, the nodes at which each iteration completed, and
        // whether it reused a deeper cached result
        let mut s0 = Searcher::new();
        s0.verif_set_hard_cap(Some(400_000));
        let b = eng::to_board(&p);
        if std::panic::catch_unwind(std::panic::AssertUnwindSafe(|| s0.find_best_move(&b, d, None))).is_err() {
            stats.exclude("candidate: uninterrupted search larger than the per-case bound");
            continue;
        }
        if s0.verif.tt_deeper_hits.get() > 0 {
            stats.exclude("candidate: the uninterrupted search reuses a deeper cached result");
            continue;
        }
        let t = s0.verif_nodes();
        let infos = s0.verif_timer().verif.infos.borrow().clone();
        chosen = Some((p, d, t, infos));
        break;
    }
    let Some((p, d, t, infos)) = chosen else {
        stats.exclude("no candidate without deeper reuse found in 8 tries");
        return Ok(());
    };
    let fen = eng::fen(&p);
    let mut rs = RefSearch::new(REF_CAP.with(|c| c.get()).max(600_000));
    if let Err(a) = rs.v(&p, d) {
        stats.exclude(abort_reason(&a));
        return Ok(());
    }
    let before_last = infos.iter().filter(|i| i.0 + 1 == d).map(|i| i.2).max().unwrap_or(0);
    if t < before_last + 3 {
        stats.exclude("last iteration too small to interrupt");
        return Ok(());
    }
    let mut tree = Vec::new();
    tree_positions(&p, d, &mut tree, 6000);
    let span = t - before_last - 1;
    stats.class(&format!("last_iteration_depth_{}", d));
    for i in 0..14u64 {
        let k = before_last + 1 + (s.u16() as u64 + i * 65536) * span / (14 * 65536);
        let k = k.clamp(1, t - 1);
        let judged0 = stats.classes.get("follow_ups_judged").copied().unwrap_or(0);
        judge_sequence(&p, d, &[k], t, "last-iteration", &mut rs, &tree, stats)?;
        stats.class("deadlines_inside_the_last_iteration");
        if stats.classes.get("follow_ups_judged").copied().unwrap_or(0) > judged0 {
            stats.class(&format!("last_iteration_follow_up_judged_at_depth_{}", d));
        }
    }
    stats.sample(|| json!({"fen": fen, "depth": d, "uninterrupted_nodes": t, "last_but_one_iteration_completed_at_node": before_last, "deadlines": 14}));
    Ok(())
}

/// Part 'last-iteration-large': the same idea on positions too large for the plain-minimax
/// reference (8..20 men, depth 3..4): the value a completed fixed-depth follow-up must report is the
/// one a FRESH engine reports for the same fixed-depth search — which is the minimax value as far as
/// C05 holds (its own check says so), provided neither search reused a deeper cached result
/// (measured; such cases are excluded).  History snapshot as everywhere.
fn check_last_iteration_large(bytes: &[u8], stats: &mut Stats) -> Verdict {
    let mut s = Src::new(bytes);
    let mut chosen = None;
    for _try in 0..6 {
        let p = match s.weighted(&[40, 35, 25]) {
            0 => gen::g_play(&mut s),
            1 => {
                let n = 6 + s.below(12);
                gen::g_place(&mut s, n)
            }
            _ => gen::g_mix(&mut s).0,
        };
        let men = p.men();
        if !p.is_valid() || p.legal_moves().len() < 2 || men < 8 || men > 22 {
            continue;
        }
        let d: u8 = if men <= 14 { 3 + s.below(2) as u8 } else { 3 };
        let b = eng::to_board(&p);
        let mut s0 = Searcher::new();
        s0.verif_set_hard_cap(Some(250_000));
        if std::panic::catch_unwind(std::panic::AssertUnwindSafe(|| s0.find_best_move(&b, d, None))).is_err() {
            stats.exclude("candidate: uninterrupted search larger than the per-case bound");
            continue;
        }
        if s0.verif.tt_deeper_hits.get() > 0 {
            stats.exclude("candidate: the uninterrupted search reuses a deeper cached result");
            continue;
        }
        let t = s0.verif_nodes();
        let infos = s0.verif_timer().verif.infos.borrow().clone();
        // the fresh fixed-depth value
        let mut f = Searcher::new();
        f.verif_set_hard_cap(Some(600_000));
        let Ok((fresh, _)) = std::panic::catch_unwind(std::panic::AssertUnwindSafe(|| f.verif_search_fixed(&b, d))) else { continue };
        if f.verif.tt_deeper_hits.get() > 0 {
            stats.exclude("candidate: the fresh fixed-depth search reuses a deeper cached result");
            continue;
        }
        chosen = Some((p, d, t, infos, fresh));
        break;
    }
    let Some((p, d, t, infos, fresh)) = chosen else {
        stats.exclude("no candidate without deeper reuse found");
        return Ok(());
    };
    let fen = eng::fen(&p);
    let b = eng::to_board(&p);
    let before_last = infos.iter().filter(|i| i.0 + 1 == d).map(|i| i.2).max().unwrap_or(0);
    if t < before_last + 3 {
        return Ok(());
    }
    let span = t - before_last - 1;
    for i in 0..12u64 {
        let k = (before_last + 1 + (s.u16() as u64 + i * 65536) * span / (12 * 65536)).clamp(1, t - 1);
        let ctx = json!({"fen": fen, "depth": d, "uninterrupted_nodes": t, "gen": "last-iteration-large", "interrupted_at_nodes": [k], "oracle": "fresh engine"});
        let mut searcher = Searcher::new();
        interrupted_search(&mut searcher, &p, d, k, &ctx)?;
        stats.eval();
        if searcher.verif.tt_deeper_hits.get() > 0 {
            stats.exclude("follow-up not judged: deeper cached result reused during the interrupted searches");
            continue;
        }
        let deeper0 = searcher.verif.tt_deeper_hits.get();
        searcher.verif_set_hard_cap(Some(900_000));
        let Ok((score, _)) = std::panic::catch_unwind(std::panic::AssertUnwindSafe(|| searcher.verif_search_fixed(&b, d))) else {
            stats.exclude("follow-up over the node watchdog");
            continue;
        };
        if searcher.verif.tt_deeper_hits.get() > deeper0 {
            stats.exclude("follow-up reused a deeper cached result");
            continue;
        }
        if class(score) != class(fresh) {
            return Err(Failure::new(
                "follow-up-differs-from-a-fresh-search",
                json!({"context": ctx, "interrupted_at_nodes": [k], "follow_up_depth": d, "follow_up_score": score, "fresh_engine_score": fresh, "replay": {"vs_fresh": true}}),
            ));
        }
        stats.class("large_follow_ups_judged_against_a_fresh_engine");
        stats.nontrivial(&(p.fen4(), d, k));
    }
    stats.sample(|| json!({"fen": fen, "depth": d, "uninterrupted_nodes": t, "oracle": "fresh engine, same fixed depth", "deadlines": 12}));
    Ok(())
}

pub fn run(tier: Tier, seed: u64, known: &Known) -> PropRun {
    let mut run = PropRun::new("fault_enumeration", RULE);
    run.assumptions = vec![
        "the deadline is expressed in nodes through the SearchTimer hook (should_stop() answers nodes >= limit); every wall-clock expiry corresponds to some node count at which a poll first returns true".into(),
        "reference minimax as in C05 (engine evaluation at quiescence leaves)".into(),
        "entries whose key matches no position of the enumerated tree are not audited".into(),
    ];
    let (cap, eb, sk, mt) = (tier.pick(60_000u64, 1_000_000), tier.pick(700u64, 2_500), tier.pick(60usize, 400), tier.pick(5_000u64, 20_000));
    run.extra.insert("enumeration_bound_nodes".into(), json!(eb));
    let setp = move || {
        REF_CAP.with(|c| c.set(cap));
        ENUM_BOUND.with(|c| c.set(eb));
        SAMPLED_KS.with(|c| c.set(sk));
        MAX_T.with(|c| c.set(mt));
    };
    let part = Part { name: "expiry", cases: tier.pick(160, 2_000), min_len: 24, max_len: 700, max_shrink: 60, threads: threads() };
    let (st, fl) = run_part(&part, seed, known, |b, st| {
        setp();
        check(b, st)
    });
    run.stats.merge(st);
    if fl.is_some() {
        run.failure = fl;
        return run;
    }
    let part = Part { name: "last-iteration", cases: tier.pick(320, 5_000), min_len: 24, max_len: 300, max_shrink: 60, threads: threads() };
    let (st, fl) = run_part(&part, seed, known, |b, st| {
        setp();
        check_last_iteration(b, st)
    });
    run.stats.merge(st);
    if fl.is_some() {
        run.failure = fl;
        return run;
    }
    let part = Part { name: "last-iteration-large", cases: tier.pick(500, 10_000), min_len: 24, max_len: 400, max_shrink: 40, threads: threads() };
    let (st, fl) = run_part(&part, seed, known, check_last_iteration_large);
    run.stats.merge(st);
    if fl.is_some() {
        run.failure = fl;
        return run;
    }
    let part = Part { name: "bare", cases: tier.pick(600, 20_000), min_len: 24, max_len: 64, max_shrink: 200, threads: threads() };
    let (st, fl) = run_part(&part, seed, known, check_bare);
    run.stats.merge(st);
    run.failure = fl;
    run
}

pub fn replay(part: &str, bytes: &[u8], case: &Value, stats: &mut Stats) -> Verdict {
    REF_CAP.with(|c| c.set(1_000_000));
    ENUM_BOUND.with(|c| c.set(2_500));
    SAMPLED_KS.with(|c| c.set(400));
    MAX_T.with(|c| c.set(20_000));
    // structural replay from the saved case
    let c = case.get("context").unwrap_or(case);
    let fen = c.get("fen").and_then(|x| x.as_str());
    let seq: Option<Vec<u64>> = c.get("interrupted_at_nodes").or_else(|| case.get("interrupted_at_nodes")).and_then(|x| x.as_array()).map(|a| a.iter().filter_map(|v| v.as_u64()).collect());
    if case.get("replay").and_then(|r| r.get("vs_fresh")).is_some() {
        if let (Some(fen), Some(seq), Some(d)) = (fen, seq.clone(), c.get("depth").and_then(|x| x.as_u64())) {
            if let Some(p) = eng::pos_from_saved_fen(fen) {
                let b = eng::to_board(&p);
                let mut f = Searcher::new();
                let (fresh, _) = f.verif_search_fixed(&b, d as u8);
                let mut searcher = Searcher::new();
                interrupted_search(&mut searcher, &p, d as u8, seq[0], c)?;
                let (score, _) = searcher.verif_search_fixed(&b, d as u8);
                stats.eval();
                if searcher.verif.tt_deeper_hits.get() == 0 && f.verif.tt_deeper_hits.get() == 0 && class(score) != class(fresh) {
                    return Err(Failure::new("follow-up-differs-from-a-fresh-search", json!({"context": c, "follow_up_score": score, "fresh_engine_score": fresh})));
                }
                return Ok(());
            }
        }
    }
    if let (Some(fen), Some(seq)) = (fen, seq) {
        if let Some(p) = eng::pos_from_saved_fen(fen) {
            if part == "bare" || case.get("follow_up_depth").is_some() && case.get("interrupted_depth").is_some() {
                let d = case.get("interrupted_depth").and_then(|x| x.as_u64()).unwrap_or(1) as u8;
                let fd = case.get("follow_up_depth").and_then(|x| x.as_u64()).unwrap_or(1) as u8;
                return judge_bare(&p, d, &seq, fd, stats);
            }
            if let (Some(d), false) = (c.get("depth").and_then(|x| x.as_u64()), seq.is_empty()) {
                let d = d as u8;
                let mut rs = RefSearch::new(REF_CAP.with(|c| c.get()));
                let mut tree = Vec::new();
                tree_positions(&p, d, &mut tree, 6000);
                let t = c.get("uninterrupted_nodes").and_then(|x| x.as_u64()).unwrap_or(u64::MAX);
                return judge_sequence(&p, d, &seq, t, "replay", &mut rs, &tree, stats).map(|_| ());
            }
        }
    }
    match part {
        "bare" => check_bare(bytes, stats),
        "last-iteration" => check_last_iteration(bytes, stats),
        "last-iteration-large" => check_last_iteration_large(bytes, stats),
        _ => check(bytes, stats),
    }
}

/// Byte-level entry for the fuzz target: one generated interruption sequence per input (the
/// proptest-driven part enumerates all expiry points of a position; here coverage guidance picks
/// them), or a bare-material case.
pub fn fuzz_entry(bytes: &[u8]) -> Verdict {
    REF_CAP.with(|c| c.set(40_000));
    let mut st = Stats::new();
    if bytes.first().map(|b| b & 3 == 3).unwrap_or(false) {
        return check_bare(&bytes[1..], &mut st);
    }
    let mut s = Src::new(bytes.get(1..).unwrap_or(&[]));
    let (p, kind) = gen::g_small(&mut s);
    let men = p.men();
    let d: u8 = if men <= 5 { 1 + s.below(4) as u8 } else if men <= 9 { 1 + s.below(3) as u8 } else { 1 + s.below(2) as u8 };
    if p.legal_moves().is_empty() {
        return Ok(());
    }
    let mut rs = RefSearch::new(40_000);
    if rs.v(&p, d).is_err() {
        return Ok(());
    }
    let mut s0 = Searcher::new();
    s0.verif_set_hard_cap(Some(5_001));
    let b = eng::to_board(&p);
    if std::panic::catch_unwind(std::panic::AssertUnwindSafe(|| s0.find_best_move(&b, d, None))).is_err() {
        return Ok(());
    }
    let t = s0.verif_nodes();
    if t < 3 {
        return Ok(());
    }
    let n = 1 + s.below(3);
    let seq: Vec<u64> = (0..n).map(|_| 1 + (s.u16() as u64 * (t - 1)) / 65536).collect();
    let mut tree = Vec::new();
    tree_positions(&p, d, &mut tree, 6000);
    judge_sequence(&p, d, &seq, t, kind, &mut rs, &tree, &mut st).map(|_| ())
}
