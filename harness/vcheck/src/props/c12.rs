//! C12 — thinking time is taken from the mover's own clock and fits in it.

use crate::props::{guarded, threads};
use crate::runner::{run_part, Failure, Known, Part, Verdict};
use crate::src::Src;
use crate::stats::Stats;
use crate::{PropRun, Tier};
use flsrc::uci::Flounder;
use serde_json::{json, Value};
use std::cell::RefCell;

pub const RULE: &str = "wtime/btime/winc/binc over 0..86_400_000 ms from a boundary-rich mixture (0,1,49,50,4999,5000,5001,5025,60000, hours; increments 0,1,<remaining,=remaining,>remaining), all 24 orders of the four name-value pairs and the two-pair form in both orders, either side to move, in whatever position the engine holds (a generated valid position of 2..32 men, changed every dozen cases by a position command). The budget B is what the REAL go parser hands to the search (hook verif_go_budget; nothing duplicated). Oracle: (1) independence — B unchanged when the opponent's time/inc are replaced and under every permutation of the pairs; (2) fit — B <= own time, B < own time when own time > 0, a missing limit counts as exceeding. Non-trivial = own != opp in time or inc and own time > 0; distinct by (five-tuple, order).";


fn time_value(s: &mut Src) -> u64 {
    match s.below(14) {
        0 => 0,
        1 => 1,
        2 => 49,
        3 => 50,
        4 => 4_999,
        5 => 5_000,
        6 => 5_001,
        7 => 5_025,
        8 => 60_000,
        9 => 3_600_000 + s.below(60_000) as u64,
        10 => 86_400_000,
        11 => s.below(12_000) as u64,
        12 => s.below(600_000) as u64,
        _ => s.u32() as u64 % 86_400_001,
    }
}

fn inc_value(s: &mut Src, remaining: u64) -> u64 {
    match s.below(8) {
        0 | 1 => 0,
        2 => 1,
        3 => remaining / 2,
        4 => remaining,
        5 => remaining + 1 + s.below(5000) as u64,
        6 => s.below(30_000) as u64,
        _ => s.u32() as u64 % 86_400_001,
    }
}

thread_local! {
    /// one engine per thread and the position it currently holds (FEN, white to move?)
    static ENGINE: RefCell<Option<(Flounder, String, bool)>> = RefCell::new(None);
}

/// Sets the position of the thread's engine (a position command rebuilds the magic tables, so
/// cases change it only now and then).
fn set_position(fen: &str, white_to_move: bool) -> Result<(), Failure> {
    ENGINE.with(|e| {
        let mut e = e.borrow_mut();
        let mut fl = match e.take() {
            Some((fl, _, _)) => fl,
            None => Flounder::new(),
        };
        guarded("position", || fl.verif_handle_command(&format!("position fen {}", fen)))?;
        *e = Some((fl, fen.to_string(), white_to_move));
        Ok(())
    })
}

fn current_position() -> Option<(String, bool)> {
    ENGINE.with(|e| e.borrow().as_ref().map(|x| (x.1.clone(), x.2)))
}

fn budget(_white_to_move: bool, cmd: &str) -> Result<Option<(u8, Option<std::time::Duration>)>, Failure> {
    ENGINE.with(|e| {
        let mut e = e.borrow_mut();
        let Some((fl, _, _)) = e.as_mut() else {
            return Err(Failure::new("harness-no-position-set", json!({})));
        };
        let r = guarded("go", || fl.verif_go_budget(cmd));
        if r.is_err() {
            *e = None;
        }
        r
    })
}

fn cmd_for(order: &[usize], vals: &[(&str, u64); 4]) -> String {
    let mut c = String::from("go");
    for i in order {
        c.push_str(&format!(" {} {}", vals[*i].0, vals[*i].1));
    }
    c
}

const PERMS: [[usize; 4]; 24] = [
    [0, 1, 2, 3], [0, 1, 3, 2], [0, 2, 1, 3], [0, 2, 3, 1], [0, 3, 1, 2], [0, 3, 2, 1],
    [1, 0, 2, 3], [1, 0, 3, 2], [1, 2, 0, 3], [1, 2, 3, 0], [1, 3, 0, 2], [1, 3, 2, 0],
    [2, 0, 1, 3], [2, 0, 3, 1], [2, 1, 0, 3], [2, 1, 3, 0], [2, 3, 0, 1], [2, 3, 1, 0],
    [3, 0, 1, 2], [3, 0, 2, 1], [3, 1, 0, 2], [3, 1, 2, 0], [3, 2, 0, 1], [3, 2, 1, 0],
];

fn check(bytes: &[u8], stats: &mut Stats) -> Verdict {
    let mut s = Src::new(bytes);
    // the position: changed in one case out of twelve (any valid position, 2..32 men, either
    // side to move), otherwise the one the thread's engine already holds
    if current_position().is_none() || s.chance(8) {
        let p = match s.below(3) {
            0 => refchess::Pos::startpos(),
            1 => crate::gen::g_small(&mut s).0,
            _ => crate::gen::g_mix(&mut s).0,
        };
        set_position(&p.fen(0, 1), p.stm == refchess::Color::W)?;
        stats.class(match p.men() {
            0..=6 => "position_set_with_up_to_6_men",
            7..=12 => "position_set_with_7_to_12_men",
            _ => "position_set_with_13_or_more_men",
        });
    }
    let (pos_fen, white) = current_position().unwrap();
    let own_t = time_value(&mut s);
    let own_i = inc_value(&mut s, own_t);
    let opp_t = time_value(&mut s);
    let opp_i = inc_value(&mut s, opp_t);
    let opp_t2 = time_value(&mut s);
    let opp_i2 = inc_value(&mut s, opp_t2);
    let two_pair = s.chance(20);
    let all_perms = s.chance(15);
    let (wt, bt, wi, bi) = if white { (own_t, opp_t, own_i, opp_i) } else { (opp_t, own_t, opp_i, own_i) };
    let vals = [("wtime", wt), ("btime", bt), ("winc", wi), ("binc", bi)];
    let base_order: Vec<usize> = if two_pair {
        if s.bool() { vec![0, 1] } else { vec![1, 0] }
    } else {
        PERMS[s.below(24)].to_vec()
    };
    let (eff_own_i, _eff_opp_i) = if two_pair { (0, 0) } else { (own_i, opp_i) };
    let cmd = cmd_for(&base_order, &vals);
    let side = if white { "white" } else { "black" };
    let desc = |cmd: &str| json!({"position": pos_fen, "side_to_move": side, "command": cmd, "own_time": own_t, "own_inc": eff_own_i, "opp_time": opp_t, "opp_inc": if two_pair {0} else {opp_i}});
    let b = budget(white, &cmd)?;
    stats.eval();
    let Some((_depth, limit)) = b else {
        return Err(Failure::new("go-not-parsed", desc(&cmd)));
    };
    // (2) fit
    let Some(limit) = limit else {
        return Err(Failure::new("no-time-limit-with-clock", desc(&cmd)));
    };
    let ms = limit.as_millis() as u64;
    let exceeds = ms > own_t || (own_t > 0 && ms >= own_t);
    if exceeds {
        let formula = own_t.saturating_sub(5000) / 25 + eff_own_i;
        let sig = if ms == formula && ms > own_t { "budget-exceeds-clock-uncapped-formula" } else if ms == formula { "budget-equals-clock-uncapped-formula" } else { "budget-exceeds-clock" };
        let mut d = desc(&cmd);
        d["budget_ms"] = json!(ms);
        return Err(Failure::new(sig, d));
    }
    // (1) independence from the opponent's clock
    let (wt2, bt2, wi2, bi2) = if white { (own_t, opp_t2, own_i, opp_i2) } else { (opp_t2, own_t, opp_i2, own_i) };
    let vals2 = [("wtime", wt2), ("btime", bt2), ("winc", wi2), ("binc", bi2)];
    let cmd2 = cmd_for(&base_order, &vals2);
    let b2 = budget(white, &cmd2)?;
    stats.eval();
    if b2.map(|x| x.1) != Some(Some(limit)) {
        let mut d = desc(&cmd);
        d["budget_ms"] = json!(ms);
        d["other_command"] = json!(cmd2);
        d["other_budget"] = json!(format!("{:?}", b2));
        return Err(Failure::new("depends-on-opponent-clock", d));
    }
    // (1) independence from token order
    let orders: Vec<Vec<usize>> = if two_pair {
        vec![vec![0, 1], vec![1, 0]]
    } else if all_perms {
        PERMS.iter().map(|p| p.to_vec()).collect()
    } else {
        (0..3).map(|_| PERMS[s.below(24)].to_vec()).collect()
    };
    for o in orders {
        let c = cmd_for(&o, &vals);
        let bo = budget(white, &c)?;
        stats.eval();
        if bo.map(|x| x.1) != Some(Some(limit)) {
            let mut d = desc(&cmd);
            d["budget_ms"] = json!(ms);
            d["other_command"] = json!(c);
            d["other_budget"] = json!(format!("{:?}", bo));
            return Err(Failure::new("depends-on-token-order", d));
        }
    }
    stats.class(if white { "white_to_move" } else { "black_to_move" });
    stats.class(if two_pair { "two_pair_form" } else { "four_pair_form" });
    if own_t <= 5000 {
        stats.class("own_time_at_or_below_reserve");
    }
    if eff_own_i > own_t {
        stats.class("own_inc_above_remaining");
    }
    if (own_t != opp_t || eff_own_i != opp_i) && own_t > 0 {
        stats.nontrivial(&(white, own_t, eff_own_i, opp_t, opp_i, base_order.clone()));
    }
    stats.maximum("max_budget_over_own_time_permille", if own_t > 0 { (ms * 1000 / own_t) as i64 } else { 0 });
    stats.sample(|| {
        let mut d = desc(&cmd);
        d["budget_ms"] = json!(ms);
        d
    });
    Ok(())
}

pub fn run(tier: Tier, seed: u64, known: &Known) -> PropRun {
    let mut run = PropRun::new("exploration", RULE);
    run.assumptions = vec![
        "the hook verif_go_budget returns exactly the (depth, time limit) pair handle_go_command would pass to find_best_move (it records them and returns before the search)".into(),
        "clock values beyond one day and non-numeric tokens are outside the stated domain".into(),
    ];
    let part = Part { name: "budget", cases: tier.pick(2_000_000, 20_000_000), min_len: 40, max_len: 64, max_shrink: 3000, threads: threads() };
    let (st, fl) = run_part(&part, seed, known, check);
    run.stats.merge(st);
    run.failure = fl;
    run
}

/// Structural replay: the saved go command (and the command it was compared with) through the
/// real parser; fit inside the mover's clock, equality of the two budgets.
fn replay_case(case: &Value, stats: &mut Stats) -> Option<Verdict> {
    let cmd = case.get("command")?.as_str()?;
    let white = case.get("side_to_move")?.as_str()? == "white";
    let fen = match case.get("position").and_then(|x| x.as_str()) {
        Some(f) => f.to_string(),
        // files written before the position became part of the case
        None => if white { "rnbqkbnr/pppppppp/8/8/8/8/PPPPPPPP/RNBQKBNR w KQkq - 0 1".to_string() } else { "rnbqkbnr/pppppppp/8/8/4P3/8/PPPP1PPP/RNBQKBNR b KQkq e3 0 1".to_string() },
    };
    if let Err(f) = set_position(&fen, white) {
        return Some(Err(f));
    }
    let own_key = if white { "wtime" } else { "btime" };
    let toks: Vec<&str> = cmd.split_whitespace().collect();
    let own_t: u64 = toks.iter().position(|t| *t == own_key).and_then(|i| toks.get(i + 1)).and_then(|x| x.parse().ok())?;
    let mut run = || -> Verdict {
        let b = budget(white, cmd)?;
        stats.eval();
        let Some((_d, Some(limit))) = b else {
            return Err(Failure::new("no-time-limit-with-clock", json!({"side_to_move": case["side_to_move"], "command": cmd})));
        };
        let ms = limit.as_millis() as u64;
        if ms > own_t || (own_t > 0 && ms >= own_t) {
            return Err(Failure::new("budget-exceeds-clock", json!({"side_to_move": case["side_to_move"], "command": cmd, "own_time": own_t, "budget_ms": ms})));
        }
        if let Some(other) = case.get("other_command").and_then(|x| x.as_str()) {
            let b2 = budget(white, other)?;
            if b2.map(|x| x.1) != Some(Some(limit)) {
                let same_tokens = {
                    let mut a: Vec<&str> = cmd.split_whitespace().collect();
                    let mut b: Vec<&str> = other.split_whitespace().collect();
                    a.sort();
                    b.sort();
                    a == b
                };
                return Err(Failure::new(
                    if same_tokens { "depends-on-token-order" } else { "depends-on-opponent-clock" },
                    json!({"side_to_move": case["side_to_move"], "command": cmd, "budget_ms": ms, "other_command": other, "other_budget": format!("{:?}", b2)}),
                ));
            }
        }
        Ok(())
    };
    Some(run())
}

pub fn replay(_part: &str, bytes: &[u8], case: &Value, stats: &mut Stats) -> Verdict {
    if let Some(v) = replay_case(case, stats) {
        return v;
    }
    check(bytes, stats)
}

/// Byte-level entry for the fuzz target.
pub fn fuzz_entry(bytes: &[u8]) -> Verdict {
    let mut st = Stats::new();
    check(bytes, &mut st)
}
