//! C12 — thinking time is taken from the mover's own clock and fits in it.

use crate::props::{guarded, threads};
use crate::runner::{run_part, Failure, Known, Part, Verdict};
use crate::src::Src;
use crate::stats::Stats;
use crate::{PropRun, Tier};
use flsrc::uci::Flounder;
use serde_json::{json, Value};
use std::cell::RefCell;

pub const RULE: &str = "wtime/btime/winc/binc over 0..86_400_000 ms from a boundary-rich mixture (0,1,49,50,4999,5000,5001,5025,60000, hours; increments 0,1,<remaining,=remaining,>remaining), all 24 orders of the four name-value pairs and the two-pair form in both orders, either side to move, in whatever position the engine holds (a generated valid position of 2..32 men, changed every dozen cases by a position command). The budget B is what the REAL go parser hands to the search (hook verif_go_budget; nothing duplicated). Oracle: (1) independence — B unchanged when the opponent's time/inc are replaced and under every permutation of the pairs; (2) fit — B <= own time, B < own time when own time > 0, a missing limit counts as exceeding. Non-trivial = own != opp in time or inc and own time > 0; distinct by (five-tuple, order). Part 'effective': sequences of 2..7 REAL searches 'go depth 1 <clocks>' (a quarter: depth 3..5; now and then a 'go depth 1 movetime N' in between, not judged itself) on one engine (positions change in between, mates and stalemates included; clocks biased to short ones, 0..16 ms included); after each search the limit the search timer was started with is read back (SearchTimer::time_limit): it must fit in the mover's clock in the same way, and a twin engine given the same sequence with other clocks for the opponent must have run with the same effective budgets. Non-trivial there = a search that follows an earlier one on the same engine with time on the clock.";


fn time_value(s: &mut Src) -> u64 {
    match s.below(14) {
        0 => 0,
        1 => 1,
        2 => 49,
        3 => 50,
        4 => 4_999,
        5 => 5_000,
        6 => 5_001,
        7 => 5_025,
        8 => 60_000,
        9 => 3_600_000 + s.below(60_000) as u64,
        10 => 86_400_000,
        11 => s.below(12_000) as u64,
        12 => s.below(600_000) as u64,
        _ => s.u32() as u64 % 86_400_001,
    }
}

fn inc_value(s: &mut Src, remaining: u64) -> u64 {
    match s.below(8) {
        0 | 1 => 0,
        2 => 1,
        3 => remaining / 2,
        4 => remaining,
        5 => remaining + 1 + s.below(5000) as u64,
        6 => s.below(30_000) as u64,
        _ => s.u32() as u64 % 86_400_001,
    }
}

thread_local! {
    /// one engine per thread and the position it currently holds (FEN, white to move?)
    static ENGINE: RefCell<Option<(Flounder, String, bool)>> = RefCell::new(None);
}

/// Sets the position of the thread's engine (a position command rebuilds the magic tables, so
/// cases change it only now and then).
fn set_position(fen: &str, white_to_move: bool) -> Result<(), Failure> {
    ENGINE.with(|e| {
        let mut e = e.borrow_mut();
        let mut fl = match e.take() {
            Some((fl, _, _)) => fl,
            None => Flounder::new(),
        };
        guarded("position", || fl.verif_handle_command(&format!("position fen {}", fen)))?;
        *e = Some((fl, fen.to_string(), white_to_move));
        Ok(())
    })
}

fn current_position() -> Option<(String, bool)> {
    ENGINE.with(|e| e.borrow().as_ref().map(|x| (x.1.clone(), x.2)))
}

fn budget(_white_to_move: bool, cmd: &str) -> Result<Option<(u8, Option<std::time::Duration>)>, Failure> {
    ENGINE.with(|e| {
        let mut e = e.borrow_mut();
        let Some((fl, _, _)) = e.as_mut() else {
            return Err(Failure::new("harness-no-position-set", json!({})));
        };
        let r = guarded("go", || fl.verif_go_budget(cmd));
        if r.is_err() {
            *e = None;
        }
        r
    })
}

fn cmd_for(order: &[usize], vals: &[(&str, u64); 4]) -> String {
    let mut c = String::from("go");
    for i in order {
        c.push_str(&format!(" {} {}", vals[*i].0, vals[*i].1));
    }
    c
}

const PERMS: [[usize; 4]; 24] = [
    [0, 1, 2, 3], [0, 1, 3, 2], [0, 2, 1, 3], [0, 2, 3, 1], [0, 3, 1, 2], [0, 3, 2, 1],
    [1, 0, 2, 3], [1, 0, 3, 2], [1, 2, 0, 3], [1, 2, 3, 0], [1, 3, 0, 2], [1, 3, 2, 0],
    [2, 0, 1, 3], [2, 0, 3, 1], [2, 1, 0, 3], [2, 1, 3, 0], [2, 3, 0, 1], [2, 3, 1, 0],
    [3, 0, 1, 2], [3, 0, 2, 1], [3, 1, 0, 2], [3, 1, 2, 0], [3, 2, 0, 1], [3, 2, 1, 0],
];

fn check(bytes: &[u8], stats: &mut Stats) -> Verdict {
    let mut s = Src::new(bytes);
    // the position: changed in one case out of twelve (any valid position, 2..32 men, either
    // side to move), otherwise the one the thread's engine already holds
    if current_position().is_none() || s.chance(8) {
        let p = match s.below(3) {
            0 => refchess::Pos::startpos(),
            1 => crate::gen::g_small(&mut s).0,
            _ => crate::gen::g_mix(&mut s).0,
        };
        set_position(&p.fen(0, 1), p.stm == refchess::Color::W)?;
        stats.class(match p.men() {
            0..=6 => "position_set_with_up_to_6_men",
            7..=12 => "position_set_with_7_to_12_men",
            _ => "position_set_with_13_or_more_men",
        });
    }
    let (pos_fen, white) = current_position().unwrap();
    let own_t = time_value(&mut s);
    let own_i = inc_value(&mut s, own_t);
    let opp_t = time_value(&mut s);
    let opp_i = inc_value(&mut s, opp_t);
    let opp_t2 = time_value(&mut s);
    let opp_i2 = inc_value(&mut s, opp_t2);
    let two_pair = s.chance(20);
    let all_perms = s.chance(15);
    let (wt, bt, wi, bi) = if white { (own_t, opp_t, own_i, opp_i) } else { (opp_t, own_t, opp_i, own_i) };
    let vals = [("wtime", wt), ("btime", bt), ("winc", wi), ("binc", bi)];
    let base_order: Vec<usize> = if two_pair {
        if s.bool() { vec![0, 1] } else { vec![1, 0] }
    } else {
        PERMS[s.below(24)].to_vec()
    };
    let (eff_own_i, _eff_opp_i) = if two_pair { (0, 0) } else { (own_i, opp_i) };
    let cmd = cmd_for(&base_order, &vals);
    let side = if white { "white" } else { "black" };
    let desc = |cmd: &str| json!({"position": pos_fen, "side_to_move": side, "command": cmd, "own_time": own_t, "own_inc": eff_own_i, "opp_time": opp_t, "opp_inc": if two_pair {0} else {opp_i}});
    let b = budget(white, &cmd)?;
    stats.eval();
    let Some((_depth, limit)) = b else {
        return Err(Failure::new("go-not-parsed", desc(&cmd)));
    };
    // (2) fit
    let Some(limit) = limit else {
        return Err(Failure::new("no-time-limit-with-clock", desc(&cmd)));
    };
    let ms = limit.as_millis() as u64;
    let exceeds = ms > own_t || (own_t > 0 && ms >= own_t);
    if exceeds {
        let formula = own_t.saturating_sub(5000) / 25 + eff_own_i;
        let sig = if ms == formula && ms > own_t { "budget-exceeds-clock-uncapped-formula" } else if ms == formula { "budget-equals-clock-uncapped-formula" } else { "budget-exceeds-clock" };
        let mut d = desc(&cmd);
        d["budget_ms"] = json!(ms);
        return Err(Failure::new(sig, d));
    }
    // (1) independence from the opponent's clock
    let (wt2, bt2, wi2, bi2) = if white { (own_t, opp_t2, own_i, opp_i2) } else { (opp_t2, own_t, opp_i2, own_i) };
    let vals2 = [("wtime", wt2), ("btime", bt2), ("winc", wi2), ("binc", bi2)];
    let cmd2 = cmd_for(&base_order, &vals2);
    let b2 = budget(white, &cmd2)?;
    stats.eval();
    if b2.map(|x| x.1) != Some(Some(limit)) {
        let mut d = desc(&cmd);
        d["budget_ms"] = json!(ms);
        d["other_command"] = json!(cmd2);
        d["other_budget"] = json!(format!("{:?}", b2));
        return Err(Failure::new("depends-on-opponent-clock", d));
    }
    // (1) independence from token order
    let orders: Vec<Vec<usize>> = if two_pair {
        vec![vec![0, 1], vec![1, 0]]
    } else if all_perms {
        PERMS.iter().map(|p| p.to_vec()).collect()
    } else {
        (0..3).map(|_| PERMS[s.below(24)].to_vec()).collect()
    };
    for o in orders {
        let c = cmd_for(&o, &vals);
        let bo = budget(white, &c)?;
        stats.eval();
        if bo.map(|x| x.1) != Some(Some(limit)) {
            let mut d = desc(&cmd);
            d["budget_ms"] = json!(ms);
            d["other_command"] = json!(c);
            d["other_budget"] = json!(format!("{:?}", bo));
            return Err(Failure::new("depends-on-token-order", d));
        }
    }
    stats.class(if white { "white_to_move" } else { "black_to_move" });
    stats.class(if two_pair { "two_pair_form" } else { "four_pair_form" });
    if own_t <= 5000 {
        stats.class("own_time_at_or_below_reserve");
    }
    if eff_own_i > own_t {
        stats.class("own_inc_above_remaining");
    }
    if (own_t != opp_t || eff_own_i != opp_i) && own_t > 0 {
        stats.nontrivial(&(white, own_t, eff_own_i, opp_t, opp_i, base_order.clone()));
    }
    stats.maximum("max_budget_over_own_time_permille", if own_t > 0 { (ms * 1000 / own_t) as i64 } else { 0 });
    stats.sample(|| {
        let mut d = desc(&cmd);
        d["budget_ms"] = json!(ms);
        d
    });
    Ok(())
}

/// Part 'effective': what the search really runs with.  A sequence of 2..7 real `go depth 1 <clocks>`
/// commands on ONE engine (positions change in between: small positions, mates and stalemates
/// included, either side to move); every search is really run (depth 1, so it ends long before its
/// budget), and after each the limit the search timer was started with is read back
/// (`SearchTimer::time_limit`).  That effective budget must fit in the mover's clock like the
/// parser's figure, and a twin engine fed the same sequence with other clocks for the OPPONENT must
/// have run with the same effective budgets.  (The parser-level part cannot see a budget that is
/// changed after the parser: a floor in the timer, time carried over from an earlier search.)
fn check_effective(bytes: &[u8], stats: &mut Stats) -> Verdict {
    let mut s = Src::new(bytes);
    let n = 2 + s.below(6);
    // the script
    struct Step {
        position: Option<String>,
        white: bool,
        go: String,
        go_twin: String,
        own_t: u64,
    }
    let mut steps: Vec<Step> = Vec::new();
    let mut white = true;
    for i in 0..n {
        let mut position = None;
        if i == 0 || s.chance(55) {
            let p = match s.below(8) {
                0 => refchess::Pos::from_fen(*s.pick(&["7k/5Q2/6K1/8/8/8/8/8 b - - 0 1", "k7/2Q5/1K6/8/8/8/8/8 b - - 0 1", "R6k/6pp/8/8/8/8/8/K7 b - - 0 1", "8/8/8/8/8/5k2/5p2/5K2 w - - 0 1"])).unwrap().0,
                1 => refchess::Pos::startpos(),
                _ => crate::gen::g_small(&mut s).0,
            };
            white = p.stm == refchess::Color::W;
            position = Some(format!("position fen {}", p.fen(0, 1)));
        }
        // clocks: boundary-rich, with a bias to SHORT clocks after long ones
        let own_t = if s.chance(35) { *s.pick(&[0u64, 1, 2, 5, 9, 12, 14, 15, 16, 30, 49, 100, 400, 999]) } else { time_value(&mut s) };
        let own_i = inc_value(&mut s, own_t);
        let (opp_t, opp_i) = (time_value(&mut s), inc_value(&mut s, 1000));
        let (opp_t2, opp_i2) = (time_value(&mut s), inc_value(&mut s, 50_000));
        let order = PERMS[s.below(24)];
        // one command in ten ends with the standard 'movestogo n' a GUI sends with the clocks
        let tail = if s.chance(10) { format!(" movestogo {}", 1 + s.below(60)) } else { String::new() };
        // mostly depth 1; a quarter of the searches go three to five plies deep (small positions:
        // they still end long before any budget) — what a search does to its own limit while it
        // runs (extensions on a falling score ...) needs a few iterations to happen
        let sd = if s.chance(25) { 3 + s.below(3) } else { 1 };
        let mk = |ot: u64, oi: u64| {
            let (wt, bt, wi, bi) = if white { (own_t, ot, own_i, oi) } else { (ot, own_t, oi, own_i) };
            let vals = [("wtime", wt), ("btime", bt), ("winc", wi), ("binc", bi)];
            format!("go depth {}{}{}", sd, &cmd_for(&order, &vals)[2..], tail)
        };
        // now and then a search under a MOVE TIME goes before (not judged itself: a move time has no
        // clock to fit in): whatever it leaves behind in the go handler must not reach the next clock go
        if s.chance(15) {
            let mt = format!("go depth 1 movetime {}", *s.pick(&[40u64, 3_000, 60_000]));
            steps.push(Step { position: position.clone(), white, go: mt.clone(), go_twin: mt, own_t: u64::MAX });
            steps.push(Step { position: None, white, go: mk(opp_t, opp_i), go_twin: mk(opp_t2, opp_i2), own_t });
            continue;
        }
        steps.push(Step { position, white, go: mk(opp_t, opp_i), go_twin: mk(opp_t2, opp_i2), own_t });
    }
    let script: Vec<Value> = steps.iter().flat_map(|st| st.position.iter().map(|p| json!(p)).chain(std::iter::once(json!({"go": st.go, "twin_go": st.go_twin})))).collect();
    // run on two engines
    let run = |twin: bool| -> Result<Vec<Option<std::time::Duration>>, Failure> {
        let mut fl = Flounder::new();
        let mut out = Vec::new();
        for st in &steps {
            let r = std::panic::catch_unwind(std::panic::AssertUnwindSafe(|| {
                if let Some(p) = &st.position {
                    fl.verif_handle_command(p);
                }
                fl.verif_searcher().verif_set_hard_cap(Some(2_000_000));
                fl.verif_handle_command(if twin { &st.go_twin } else { &st.go });
                fl.verif_searcher().verif_timer().time_limit()
            }));
            match r {
                Ok(l) => out.push(l),
                Err(pn) => {
                    let msg = crate::panic_text(&pn);
                    if msg.contains("node hard cap") {
                        return Err(Failure::new("harness-skip", json!({})));
                    }
                    return Err(Failure::new("command-panic", json!({"script": script, "panic": msg})));
                }
            }
        }
        Ok(out)
    };
    let a = match run(false) {
        Ok(a) => a,
        Err(f) if f.sig == "harness-skip" => {
            stats.exclude("depth-1 search over the node watchdog");
            return Ok(());
        }
        Err(f) => return Err(f),
    };
    stats.evals(steps.len() as u64);
    for (i, (st, eff)) in steps.iter().zip(a.iter()).enumerate() {
        if st.own_t == u64::MAX {
            stats.class("effective_sequences_with_a_move_time_search_in_between");
            continue;
        }
        let d = |ms: Option<u64>| json!({"script": script, "step": i, "command": st.go, "side_to_move": if st.white { "white" } else { "black" }, "own_time": st.own_t, "effective_budget_ms": ms});
        let Some(eff) = eff else {
            return Err(Failure::new("search-ran-without-a-limit", d(None)));
        };
        let ms = eff.as_millis() as u64;
        let exceeds = eff.as_nanos() > (st.own_t as u128) * 1_000_000 || (st.own_t > 0 && eff.as_nanos() >= (st.own_t as u128) * 1_000_000);
        if exceeds {
            return Err(Failure::new("effective-budget-exceeds-clock", d(Some(ms))));
        }
        if i > 0 {
            stats.class("effective_budget_of_a_later_search_on_the_same_engine");
            if st.own_t > 0 {
                stats.nontrivial(&(&st.go, i, &steps[i - 1].go));
            }
        }
        if st.own_t <= 16 {
            stats.class("effective_budget_with_16_ms_or_less_on_the_clock");
        }
    }
    let b = match run(true) {
        Ok(b) => b,
        Err(f) if f.sig == "harness-skip" => return Ok(()),
        Err(f) => return Err(f),
    };
    stats.evals(steps.len() as u64);
    if a != b {
        let i = a.iter().zip(b.iter()).position(|(x, y)| x != y).unwrap_or(0);
        return Err(Failure::new(
            "effective-budget-depends-on-opponent-clock",
            json!({"script": script, "step": i, "command": steps[i].go, "twin_command": steps[i].go_twin, "effective_budget": format!("{:?}", a[i]), "twin_effective_budget": format!("{:?}", b[i])}),
        ));
    }
    stats.class("effective_budget_sequences");
    stats.sample(|| json!({"part": "effective", "script": script, "effective_budgets_ms": a.iter().map(|x| x.map(|d| d.as_millis() as u64)).collect::<Vec<_>>()}));
    Ok(())
}

pub fn run(tier: Tier, seed: u64, known: &Known) -> PropRun {
    let mut run = PropRun::new("exploration", RULE);
    run.assumptions = vec![
        "the hook verif_go_budget returns exactly the (depth, time limit) pair handle_go_command would pass to find_best_move (it records them and returns before the search)".into(),
        "clock values beyond one day and non-numeric tokens are outside the stated domain".into(),
    ];
    let part = Part { name: "budget", cases: tier.pick(2_000_000, 20_000_000), min_len: 40, max_len: 64, max_shrink: 3000, threads: threads() };
    let (st, fl) = run_part(&part, seed, known, check);
    run.stats.merge(st);
    run.failure = fl;
    if run.failure.is_none() {
        let part = Part { name: "effective", cases: tier.pick(6_000, 200_000), min_len: 40, max_len: 400, max_shrink: 400, threads: threads() };
        let (st, fl) = run_part(&part, seed, known, check_effective);
        run.stats.merge(st);
        run.failure = fl;
    }
    run
}

/// Structural replay: the saved go command (and the command it was compared with) through the
/// real parser; fit inside the mover's clock, equality of the two budgets.
fn replay_case(case: &Value, stats: &mut Stats) -> Option<Verdict> {
    let cmd = case.get("command")?.as_str()?;
    let white = case.get("side_to_move")?.as_str()? == "white";
    let fen = match case.get("position").and_then(|x| x.as_str()) {
        Some(f) => f.to_string(),
        // files written before the position became part of the case
        None => if white { "rnbqkbnr/pppppppp/8/8/8/8/PPPPPPPP/RNBQKBNR w KQkq - 0 1".to_string() } else { "rnbqkbnr/pppppppp/8/8/4P3/8/PPPP1PPP/RNBQKBNR b KQkq e3 0 1".to_string() },
    };
    if let Err(f) = set_position(&fen, white) {
        return Some(Err(f));
    }
    let own_key = if white { "wtime" } else { "btime" };
    let toks: Vec<&str> = cmd.split_whitespace().collect();
    let own_t: u64 = toks.iter().position(|t| *t == own_key).and_then(|i| toks.get(i + 1)).and_then(|x| x.parse().ok())?;
    let mut run = || -> Verdict {
        let b = budget(white, cmd)?;
        stats.eval();
        let Some((_d, Some(limit))) = b else {
            return Err(Failure::new("no-time-limit-with-clock", json!({"side_to_move": case["side_to_move"], "command": cmd})));
        };
        let ms = limit.as_millis() as u64;
        if ms > own_t || (own_t > 0 && ms >= own_t) {
            return Err(Failure::new("budget-exceeds-clock", json!({"side_to_move": case["side_to_move"], "command": cmd, "own_time": own_t, "budget_ms": ms})));
        }
        if let Some(other) = case.get("other_command").and_then(|x| x.as_str()) {
            let b2 = budget(white, other)?;
            if b2.map(|x| x.1) != Some(Some(limit)) {
                let same_tokens = {
                    let mut a: Vec<&str> = cmd.split_whitespace().collect();
                    let mut b: Vec<&str> = other.split_whitespace().collect();
                    a.sort();
                    b.sort();
                    a == b
                };
                return Err(Failure::new(
                    if same_tokens { "depends-on-token-order" } else { "depends-on-opponent-clock" },
                    json!({"side_to_move": case["side_to_move"], "command": cmd, "budget_ms": ms, "other_command": other, "other_budget": format!("{:?}", b2)}),
                ));
            }
        }
        Ok(())
    };
    Some(run())
}

/// Structural replay of an 'effective' case: the saved script on a fresh engine (and its twin).
fn replay_effective(case: &Value, stats: &mut Stats) -> Option<Verdict> {
    let script = case.get("script")?.as_array()?;
    let mut engines = [Flounder::new(), Flounder::new()];
    let mut white = true;
    let mut step = 0usize;
    for item in script {
        if let Some(p) = item.as_str() {
            white = p.split_whitespace().nth(3) != Some("b");
            for fl in engines.iter_mut() {
                fl.verif_handle_command(p);
            }
            continue;
        }
        let go = item.get("go")?.as_str()?.to_string();
        let twin = item.get("twin_go").and_then(|x| x.as_str()).unwrap_or(&go).to_string();
        let own_key = if white { "wtime" } else { "btime" };
        let toks: Vec<&str> = go.split_whitespace().collect();
        let own_t: Option<u64> = toks.iter().position(|t| *t == own_key).and_then(|i| toks.get(i + 1)).and_then(|x| x.parse().ok());
        let Some(own_t) = own_t else {
            // a move-time step: run, not judged
            for (k, fl) in engines.iter_mut().enumerate() {
                let _ = std::panic::catch_unwind(std::panic::AssertUnwindSafe(|| fl.verif_handle_command(if k == 0 { &go } else { &twin })));
            }
            step += 1;
            continue;
        };
        let mut effs = Vec::new();
        for (k, fl) in engines.iter_mut().enumerate() {
            let r = std::panic::catch_unwind(std::panic::AssertUnwindSafe(|| {
                fl.verif_handle_command(if k == 0 { &go } else { &twin });
                fl.verif_searcher().verif_timer().time_limit()
            }));
            match r {
                Ok(l) => effs.push(l),
                Err(pn) => return Some(Err(Failure::new("command-panic", json!({"script": script, "panic": crate::panic_text(&pn)})))),
            }
        }
        stats.evals(2);
        let Some(eff) = effs[0] else {
            return Some(Err(Failure::new("search-ran-without-a-limit", json!({"script": script, "step": step, "command": go}))));
        };
        if eff.as_nanos() > (own_t as u128) * 1_000_000 || (own_t > 0 && eff.as_nanos() >= (own_t as u128) * 1_000_000) {
            return Some(Err(Failure::new("effective-budget-exceeds-clock", json!({"script": script, "step": step, "command": go, "own_time": own_t, "effective_budget_ms": eff.as_millis() as u64}))));
        }
        if effs[0] != effs[1] {
            return Some(Err(Failure::new("effective-budget-depends-on-opponent-clock", json!({"script": script, "step": step, "command": go, "twin_command": twin}))));
        }
        step += 1;
    }
    Some(Ok(()))
}

pub fn replay(part: &str, bytes: &[u8], case: &Value, stats: &mut Stats) -> Verdict {
    if case.get("script").is_some() {
        if let Some(v) = replay_effective(case, stats) {
            return v;
        }
    }
    if let Some(v) = replay_case(case, stats) {
        return v;
    }
    if part == "effective" {
        return check_effective(bytes, stats);
    }
    check(bytes, stats)
}

/// Byte-level entry for the fuzz target.
pub fn fuzz_entry(bytes: &[u8]) -> Verdict {
    let mut st = Stats::new();
    // the part 'effective' builds engines and runs real searches: far too slow per execution for a
    // coverage-guided campaign (3 executions a second in the fuzz build); it stays with proptest
    check(bytes, &mut st)
}
