//! C03 — every go is answered by exactly one legal bestmove.
//! Layer A: in-process, stateful (op lists on one engine, node-count budgets as deterministic
//! images of movetime / clock expiry).  Layer B: black-box scripts against the real binary.

use crate::blackbox::{Proc, Wait};
use crate::gen;
use crate::props::c04::gen_position_cmd;
use crate::props::threads;
use crate::runner::{run_part, Failure, Known, Part, Verdict};
use crate::script;
use crate::src::Src;
use crate::stats::Stats;
use crate::{PropRun, Tier};
use flsrc::uci::Flounder;
use refchess::Pos;
use serde_json::{json, Value};
use std::time::Duration;

pub const RULE: &str = "Layer A (in-process, model-based): op lists of 1..12 ops over one engine — NewGame, Resume (the position command that was current before the last ucinewgame, sent again, continued by 0..2 plies), SetPos (position command with FEN and move list; small positions, mates and stalemates included), Play(k plies of the same game, or one out-and-back cycle of reversible moves after which the same placement stands without its en-passant right), Search{depth 1..4, budget None | Nodes(k)} where k ranges over 0..2x the node count of the previous completed search (expiry before the first node, inside depth 1, between iterations, inside the last iteration; Nodes(0) is the image of 'movetime 0' / a clock at or below the reserve). A seventh of the cases (and all cases of the part 'twins') open with the twin scenario: a position with a legal en-passant capture or castle is searched, then the same placement without that right is set on the same engine and searched no deeper. Invariant after every Search: the returned move is a reference-legal move of the CURRENT position iff one exists, and none iff there is none. Part 'selfplay' (layer A): a game played out on ONE engine the way a GUI uses it, from endings with a decisive material advantage, mate neighbourhoods and small positions: position (whole game restated), go depth 1..4 (varying from move to move, 15 % under a node budget), the answer is played and the other side's go follows on the same engine; 18 % human-like deviations (a random legal move instead of the answer), 12 % take-backs of one or two plies followed by another search; up to 30 plies or the end of the game; one game in fifty on an engine whose tables are kept full by heavy middlegame searches (1 M nodes each, ended by a node deadline) before the game and between its moves — positions the engine has proved won or lost inside one search are the roots of later, often shallower, ones. Same invariant after every search. Layer B (black-box): scripts of ucinewgame?, 1..5 rounds of position + go (depth 1..3 pre-screened; movetime in {0,1,3,10,40}; clock sets wtime,btime 0..12000 with increments in any order, on both sides of the 5 s reserve) + isready; between consecutive readyok barriers exactly one line starts with 'bestmove', its move is legal in the position last set, or 0000 iff that position has no legal move. Part 'B-game': the real binary plays a game against itself under a real clock (position restated, go with both clocks and increments running down from 0.4..7.5 s on both sides of the reserve, the answer played and charged to the mover's clock, 4..15 plies), same oracle per go. Non-trivial = a search on a position with >=2 legal moves that follows >=1 earlier search in the same engine/process or runs under a budget that expires before the requested depth completes; distinct by (history of ops / script text).";

#[derive(Debug, Clone)]
enum Op {
    NewGame,
    /// the position command that was current before the last ucinewgame, again (continued by k plies)
    Resume(usize),
    SetPos(String, Pos),
    Play(usize),
    Search { depth: u8, budget: Option<u64> },
}

/// the endings of the 'several hundred tiny searches' warm-up (position fen <one of these>, go depth 1)
const TINY: [&str; 4] = ["8/8/8/4k3/8/8/4P3/4K3 w - - 0 1", "8/5k2/8/8/8/8/1Q6/K7 w - - 0 1", "8/8/4k3/8/2N5/8/8/4K3 w - - 0 1", "8/3k4/8/8/8/2R5/8/K3r3 w - - 0 1"];

thread_local! {
    /// set by the fuzz entry: no multi-million-node warm-ups under the coverage-guided engine
    static NO_HEAVY: std::cell::Cell<bool> = std::cell::Cell::new(false);
}

thread_local! {
    /// share of layer-A cases that open with the twin-position scenario
    static TWIN_PCT: std::cell::Cell<usize> = std::cell::Cell::new(14);
}

/// Layer A restricted to cases that open with the twin-position scenario.
fn part_twins(bytes: &[u8], stats: &mut Stats) -> Verdict {
    TWIN_PCT.with(|c| c.set(100));
    let r = part_a(bytes, stats);
    TWIN_PCT.with(|c| c.set(14));
    r
}

/// One search through the real command handler: `go depth d` with the node budget set on the
/// engine's timer (hook); the answer is the bestmove line the handler printed (its in-process
/// image, recorded right beside the println).  Err = not exactly one bestmove line.
fn go_through_handler(fl: &mut Flounder, depth: u8, budget: Option<u64>, cap_extra: u64) -> (Result<Option<String>, Vec<String>>, u64, u64) {
    let it0 = {
        let sr = fl.verif_searcher();
        sr.verif_set_node_limit(budget);
        sr.verif_set_hard_cap(Some(budget.unwrap_or(0) + cap_extra));
        sr.verif.iterations_completed.get()
    };
    let _ = fl.verif_take_bestmove_lines();
    fl.verif_handle_command(&format!("go depth {}", depth));
    let lines = fl.verif_take_bestmove_lines();
    let sr = fl.verif_searcher();
    sr.verif_set_node_limit(None);
    let its = sr.verif.iterations_completed.get() - it0;
    let nodes = sr.verif_nodes();
    let mv = if lines.len() == 1 {
        match lines[0].split_whitespace().nth(1) {
            Some("0000") | None => Ok(None),
            Some(m) => Ok(Some(m.to_string())),
        }
    } else {
        Err(lines)
    };
    (mv, nodes, its)
}

/// Twin positions: (command, position) with a legal en-passant capture or castling move, and the
/// same placement and side to move without that right (both valid positions).
fn gen_twins(s: &mut Src) -> Option<(String, Pos, String, Pos)> {
    for _ in 0..6 {
        let base = if s.chance(50) { gen::g_small(s).0 } else { gen::g_mix(s).0 };
        if s.chance(60) {
            // en passant: play a double push after which the capture is legal
            let pushes: Vec<refchess::Mv> = base
                .legal_moves()
                .into_iter()
                .filter(|m| base.info(*m).double_push)
                .filter(|m| {
                    let q = base.make(*m);
                    q.legal_moves().iter().any(|c| q.info(*c).ep)
                })
                .collect();
            if pushes.is_empty() {
                continue;
            }
            let m = pushes[s.below(pushes.len())];
            let p1 = base.make(m);
            if p1.legal_moves().is_empty() {
                continue;
            }
            let cmd1 = if s.bool() { format!("position fen {} moves {}", eng_fen(&base), m.uci()) } else { format!("position fen {}", eng_fen(&p1)) };
            let mut p2 = p1.clone();
            p2.ep = None;
            return Some((cmd1, p1, format!("position fen {}", eng_fen(&p2)), p2));
        } else {
            // castling: a legal castle, then the same placement without any right of the mover
            if !base.legal_moves().iter().any(|m| base.info(*m).castle) {
                continue;
            }
            let mut p2 = base.clone();
            if base.stm == refchess::Color::W {
                p2.castle[0] = false;
                p2.castle[1] = false;
            } else {
                p2.castle[2] = false;
                p2.castle[3] = false;
            }
            return Some((format!("position fen {}", eng_fen(&base)), base, format!("position fen {}", eng_fen(&p2)), p2));
        }
    }
    None
}

fn eng_fen(p: &Pos) -> String {
    crate::eng::fen(p)
}

fn part_a(bytes: &[u8], stats: &mut Stats) -> Verdict {
    let mut s = Src::new(bytes);
    let nops = 1 + s.below(12);
    let mut fl = Flounder::new();
    let mut cur = Pos::startpos();
    let mut cur_moves: Vec<String> = Vec::new(); // moves played after the last SetPos (for Play)
    let mut base_cmd = "position startpos".to_string();
    let mut last_nodes: u64 = 200;
    let mut searches_before = 0usize;
    let mut log: Vec<Value> = Vec::new();
    // (base command, moves, position) that were current when the last ucinewgame was sent
    let mut saved: Option<(String, Vec<String>, Pos)> = None;
    // Scripted opening of some cases: a position in which a move exists only because of a feature
    // that the placement does not show (an en-passant right, a castling right) is searched; then
    // its TWIN — same placement and side to move, the feature gone — is set on the same engine and
    // searched no deeper.  Whatever the engine remembered about the first position must not leak
    // into the answer for the second.
    let mut scripted: std::collections::VecDeque<Op> = std::collections::VecDeque::new();
    if s.chance(TWIN_PCT.with(|c| c.get())) {
        if let Some((cmd1, p1, cmd2, p2)) = gen_twins(&mut s) {
            let d1 = 1 + s.below(4) as u8;
            let d2 = 1 + s.below(d1 as usize) as u8;
            scripted.push_back(Op::SetPos(cmd1, p1));
            scripted.push_back(Op::Search { depth: d1, budget: None });
            scripted.push_back(Op::SetPos(cmd2, p2));
            scripted.push_back(Op::Search { depth: d2, budget: None });
            stats.class("A_twin_positions_searched_on_one_engine");
        }
    }
    for _ in 0..nops + scripted.len() {
        let op = if let Some(o) = scripted.pop_front() { o } else { match s.weighted(&[8, 25, 17, 50, 6]) {
            0 => Op::NewGame,
            4 => match &saved {
                Some((b, m, p)) => {
                    base_cmd = b.clone();
                    cur_moves = m.clone();
                    cur = p.clone();
                    stats.class("A_position_before_ucinewgame_sent_again");
                    Op::Resume(s.below(3))
                }
                None => Op::Play(1 + s.below(4)),
            },
            1 => {
                if s.chance(8) {
                    // mate or stalemate
                    let f = *s.pick(&["7k/5Q2/6K1/8/8/8/8/8 b - - 0 1", "k7/2Q5/1K6/8/8/8/8/8 b - - 0 1", "R6k/6pp/8/8/8/8/8/K7 b - - 0 1", "8/8/8/8/8/5k2/5p2/5K2 w - - 0 1"]);
                    Op::SetPos(format!("position fen {}", f), Pos::from_fen(f).unwrap().0)
                } else if s.chance(25) {
                    // a game history with repeated positions (the root itself may have occurred before)
                    let start = if s.bool() { Pos::startpos() } else { gen::g_small(&mut s).0 };
                    match crate::props::c09::build_history(&mut s, &start) {
                        Some((moves, last)) => {
                            let mut t = format!("position fen {}", start.fen(0, 1));
                            if !moves.is_empty() {
                                t.push_str(" moves");
                                for m in &moves {
                                    t.push(' ');
                                    t.push_str(&m.uci());
                                }
                            }
                            Op::SetPos(t, last)
                        }
                        None => {
                            let c = gen_position_cmd(&mut s, 30, true);
                            Op::SetPos(c.text, c.expected)
                        }
                    }
                } else {
                    let c = gen_position_cmd(&mut s, 30, true);
                    Op::SetPos(c.text, c.expected)
                }
            }
            // 1000 = one out-and-back cycle: the same placement comes back (without its ep right)
            2 => Op::Play(if s.chance(25) { 1000 } else { 1 + s.below(4) }),
            _ => {
                let depth = 1 + s.below(4) as u8;
                let budget = if s.chance(65) {
                    Some(match s.below(5) {
                        0 => 0,
                        1 => 1 + s.below(40) as u64,
                        _ => (s.u16() as u64 * (2 * last_nodes + 2)) >> 16,
                    })
                } else {
                    None
                };
                Op::Search { depth, budget }
            }
        } };
        let res = std::panic::catch_unwind(std::panic::AssertUnwindSafe(|| -> Result<Option<(Option<String>, u64, u64)>, ()> {
            match &op {
                Op::NewGame => {
                    fl.verif_handle_command("ucinewgame");
                    Ok(None)
                }
                Op::SetPos(text, _) => {
                    fl.verif_handle_command(text);
                    Ok(None)
                }
                // the extended game is sent below, once its moves have been chosen
                Op::Play(_) | Op::Resume(_) => Ok(None),
                Op::Search { depth, budget } => {
                    let (mv, nodes, its) = go_through_handler(&mut fl, *depth, *budget, 400_000);
                    let mv = mv.map_err(|_| ())?;
                    Ok(Some((mv, nodes, its)))
                }
            }
        }));
        // model update
        match &op {
            Op::NewGame => {
                saved = Some((base_cmd.clone(), cur_moves.clone(), cur.clone()));
                cur = Pos::startpos();
                cur_moves.clear();
                base_cmd = "position startpos".into();
                log.push(json!("ucinewgame"));
            }
            Op::SetPos(text, p) => {
                cur = p.clone();
                cur_moves.clear();
                base_cmd = text.clone();
                log.push(json!(text));
            }
            Op::Play(k) | Op::Resume(k) => {
                // the Play op was executed with the moves chosen below on the previous turn of the
                // loop; choose the moves first, then re-send (handled by executing again)
                let mut added = Vec::new();
                let mut k = *k;
                if k == 1000 {
                    k = 1;
                    if let Some(cyc) = crate::props::c09::one_cycle(&mut s, &cur) {
                        for m in cyc {
                            cur = cur.make(m);
                            added.push(m.uci());
                        }
                        k = 0;
                        stats.class("A_out_and_back_cycle_played");
                    }
                }
                for _ in 0..k {
                    let legal = cur.legal_moves();
                    let Some(m) = gen::choose_move(&mut s, &cur, &legal) else { break };
                    cur = cur.make(m);
                    added.push(m.uci());
                }
                cur_moves.extend(added.iter().cloned());
                let mut c = base_cmd.clone();
                if !cur_moves.is_empty() {
                    if !c.split_whitespace().any(|t| t == "moves") {
                        c.push_str(" moves");
                    }
                    for m in &cur_moves {
                        c.push(' ');
                        c.push_str(m);
                    }
                }
                // send the extended game (position commands always restate the whole game)
                log.push(json!(c));
                if let Err(pn) = std::panic::catch_unwind(std::panic::AssertUnwindSafe(|| fl.verif_handle_command(&c))) {
                    return Err(Failure::new("command-panic", json!({"history": log, "panic": crate::panic_text(&pn)})));
                }
            }
            Op::Search { depth, budget } => {
                log.push(json!({"search_depth": depth, "budget_nodes": budget}));
            }
        }
        let out = match res {
            Ok(Ok(x)) => x,
            Ok(Err(())) => {
                return Err(Failure::new("not-exactly-one-bestmove-line", json!({"history": log})));
            }
            Err(pn) => {
                let msg = crate::panic_text(&pn);
                if msg.contains("node hard cap") {
                    stats.exclude("unbudgeted search over the node watchdog (engine discarded, case ended)");
                    return Ok(());
                }
                return Err(Failure::new("command-panic", json!({"history": log, "panic": msg})));
            }
        };
        if let (Op::Search { depth, budget }, Some((mv, nodes, its))) = (&op, out) {
            stats.eval();
            let legal: Vec<String> = cur.legal_moves().iter().map(|m| m.uci()).collect();
            let d = json!({"history": log, "current_position": cur.fen4(), "returned": mv, "legal_moves": legal.len(), "nodes": nodes, "iterations_completed": its});
            match &mv {
                None if !legal.is_empty() => {
                    let sig = if its == 0 { "none-with-legal-moves-no-iteration-completed" } else { "none-with-legal-moves" };
                    return Err(Failure::new(sig, d));
                }
                Some(m) if legal.is_empty() => {
                    return Err(Failure::new("move-in-terminal-position", json!({"history": log, "current_position": cur.fen4(), "returned": m})));
                }
                Some(m) if !legal.contains(m) => {
                    return Err(Failure::new("illegal-bestmove", d));
                }
                _ => {}
            }
            let expired = budget.is_some() && its < *depth as u64;
            if legal.is_empty() {
                stats.class("A_search_on_terminal_position");
            }
            if expired {
                stats.class("A_budget_expired_before_depth_completed");
                if its == 0 {
                    stats.class("A_no_iteration_completed");
                }
            }
            if legal.len() >= 2 && (searches_before >= 1 || expired) {
                stats.nontrivial(&format!("{:?}", log));
            }
            if budget.is_none() || !expired {
                last_nodes = nodes.max(10);
            }
            searches_before += 1;
        }
    }
    stats.sample(|| json!({"layer": "A", "ops": log}));
    Ok(())
}

/// Endings with a decisive material advantage (either colour the attacker): the positions in which
/// a game played out by the engine itself runs into forced mates, so that nodes the engine has
/// proved lost or won inside one search are the roots of the next ones.
pub fn g_decisive(s: &mut Src) -> Pos {
    use refchess::{Color, Kind};
    for _ in 0..8 {
        let mut p = Pos::empty();
        let att = if s.bool() { Color::W } else { Color::B };
        let def = att.other();
        let ak = s.below(64) as u8;
        let mut dk = s.below(64) as u8;
        if s.chance(50) {
            // defender's king on the rim
            dk = *s.pick(&[0u8, 1, 2, 3, 4, 5, 6, 7, 8, 16, 24, 32, 40, 48, 56, 57, 58, 59, 60, 61, 62, 63, 15, 23, 31, 39, 47, 55]);
        }
        if ak == dk || ((ak % 8) as i32 - (dk % 8) as i32).abs() <= 1 && ((ak / 8) as i32 - (dk / 8) as i32).abs() <= 1 {
            continue;
        }
        p.sq[ak as usize] = Some((att, Kind::K));
        p.sq[dk as usize] = Some((def, Kind::K));
        let heavy = *s.pick(&[&[Kind::Q][..], &[Kind::R][..], &[Kind::R, Kind::R][..], &[Kind::Q, Kind::R][..], &[Kind::Q, Kind::N][..], &[Kind::R, Kind::B][..], &[Kind::Q, Kind::Q][..]]);
        for k in heavy {
            let q = s.below(64);
            if p.sq[q].is_none() {
                p.sq[q] = Some((att, *k));
            }
        }
        if s.chance(35) {
            let q = 8 + s.below(48);
            if p.sq[q].is_none() {
                p.sq[q] = Some((def, *s.pick(&[Kind::N, Kind::B, Kind::P, Kind::P])));
            }
        }
        if s.chance(25) {
            let q = 8 + s.below(48);
            if p.sq[q].is_none() {
                p.sq[q] = Some((att, Kind::P));
            }
        }
        p.stm = if s.bool() { att } else { def };
        gen::repair(&mut p);
        if p.is_valid() && !p.legal_moves().is_empty() {
            return p;
        }
    }
    Pos::from_fen("8/8/8/4k3/8/8/1Q6/K7 w - - 0 1").unwrap().0
}

/// Layer A, part 'selfplay': a game played out on ONE engine, the way a GUI uses it — position
/// (whole game restated), go, the answer is played, the other side's go follows on the same engine;
/// now and then a human-like deviation (a random legal move instead of the answer) or a take-back of
/// one or two plies followed by a search of another depth.  Depths vary from move to move, so a node
/// the engine has examined deeply inside one search is later the root of a shallower one.
fn part_selfplay(bytes: &[u8], stats: &mut Stats) -> Verdict {
    let mut s = Src::new(bytes);
    let start = match s.weighted(&[55, 15, 30]) {
        0 => g_decisive(&mut s),
        1 => gen::g_motif_n(&mut s, 7),
        _ => gen::g_small(&mut s).0,
    };
    let mut fl = Flounder::new();
    let base = format!("position fen {}", eng_fen(&start));
    let mut game: Vec<(Pos, String)> = Vec::new(); // (position before the move, move)
    let mut cur = start.clone();
    let mut log: Vec<Value> = Vec::new();
    let mut last_nodes: u64 = 200;
    let plies = 4 + s.below(26);
    let mut searches = 0usize;
    let mut mates_seen = false;
    // one game in twenty-five is played on an engine whose tables are kept full: a heavy
    // middlegame search (1.4 M nodes, ended by a node deadline) before the game and before some of
    // its moves — "whatever it searched earlier in the same process"
    let veteran = s.chance(2) && !NO_HEAVY.with(|c| c.get());
    // one game in fifty follows several hundred tiny searches on the same engine (counters of
    // searches, of table generations, of ageing steps reach 256 and 512 before the game starts)
    if s.chance(2) && !NO_HEAVY.with(|c| c.get()) {
        let n = *s.pick(&[250usize, 257, 300, 513, 600]);
        for i in 0..n {
            let fen = TINY[i % TINY.len()];
            let tp = Pos::from_fen(fen).unwrap().0;
            let r = std::panic::catch_unwind(std::panic::AssertUnwindSafe(|| {
                fl.verif_handle_command(&format!("position fen {}", fen));
                go_through_handler(&mut fl, 1, None, 600_000)
            }));
            match r {
                Ok((Ok(Some(m)), _, _)) if tp.find_uci(&m).is_some() => {}
                Ok((mv, _, its)) => return Err(Failure::new("illegal-bestmove", json!({"history": [format!("{} tiny searches (position fen <one of 4 endings>, go depth 1), the {}th:", n, i + 1), format!("position fen {}", fen), {"search_depth": 1, "budget_nodes": null}], "current_position": tp.fen4(), "returned": format!("{:?}", mv), "iterations_completed": its}))),
                Err(pn) => return Err(Failure::new("command-panic", json!({"history": [format!("position fen {}", fen)], "panic": crate::panic_text(&pn)}))),
            }
            stats.eval();
        }
        log.push(json!({"tiny_searches": n}));
        stats.class("S_games_after_several_hundred_tiny_searches_on_the_same_engine");
    }
    let mut heavy_nodes = 0u64;
    for ply in 0..plies {
        if veteran && (ply == 0 || s.chance(10)) {
            let mut hp = Pos::startpos();
            let mut text = String::from("position startpos");
            let n = s.below(7);
            for i in 0..n {
                let legal = hp.legal_moves();
                let Some(m) = gen::choose_move(&mut s, &hp, &legal) else { break };
                text.push_str(if i == 0 { " moves " } else { " " });
                text.push_str(&m.uci());
                hp = hp.make(m);
            }
            if !hp.legal_moves().is_empty() {
                let chunks = if ply == 0 { 2 + s.below(3) } else { 1 };
                for _ in 0..chunks {
                    log.push(json!(text));
                    log.push(json!({"search_depth": 12, "budget_nodes": 1_000_000}));
                    let r = std::panic::catch_unwind(std::panic::AssertUnwindSafe(|| {
                        fl.verif_handle_command(&text);
                        go_through_handler(&mut fl, 12, Some(1_000_000), 3_000_000)
                    }));
                    match r {
                        Ok((Ok(Some(m)), nodes, _)) if hp.find_uci(&m).is_some() => heavy_nodes += nodes,
                        Ok((mv, _, its)) => return Err(Failure::new("illegal-bestmove", json!({"history": log, "current_position": hp.fen4(), "returned": format!("{:?}", mv), "iterations_completed": its}))),
                        Err(pn) => return Err(Failure::new("command-panic", json!({"history": log, "panic": crate::panic_text(&pn)}))),
                    }
                    stats.eval();
                }
                stats.class("S_heavy_searches_between_the_moves_of_a_game");
                stats.maximum("S_table_entries_during_a_game", fl.verif_searcher().verif_tt_entries().len() as i64);
            }
        }
        let mut cmd = base.clone();
        if !game.is_empty() {
            cmd.push_str(" moves");
            for (_, m) in &game {
                cmd.push(' ');
                cmd.push_str(m);
            }
        }
        log.push(json!(cmd));
        if let Err(pn) = std::panic::catch_unwind(std::panic::AssertUnwindSafe(|| fl.verif_handle_command(&cmd))) {
            return Err(Failure::new("command-panic", json!({"history": log, "panic": crate::panic_text(&pn)})));
        }
        let depth = 1 + s.weighted(&[20, 25, 30, 25]) as u8;
        let budget = if s.chance(15) { Some((s.u16() as u64 * (2 * last_nodes + 2)) >> 16) } else { None };
        log.push(json!({"search_depth": depth, "budget_nodes": budget}));
        let r = std::panic::catch_unwind(std::panic::AssertUnwindSafe(|| go_through_handler(&mut fl, depth, budget, 600_000)));
        let (mv, nodes, its) = match r {
            Ok((Ok(mv), nodes, its)) => (mv, nodes, its),
            Ok((Err(lines), _, _)) => return Err(Failure::new("not-exactly-one-bestmove-line", json!({"history": log, "bestmove_lines": lines}))),
            Err(pn) => {
                let msg = crate::panic_text(&pn);
                if msg.contains("node hard cap") {
                    stats.exclude("unbudgeted search over the node watchdog (engine discarded, case ended)");
                    return Ok(());
                }
                return Err(Failure::new("command-panic", json!({"history": log, "panic": msg})));
            }
        };
        stats.eval();
        let legal: Vec<String> = cur.legal_moves().iter().map(|m| m.uci()).collect();
        let d = json!({"history": log, "current_position": cur.fen4(), "returned": mv, "legal_moves": legal.len(), "nodes": nodes, "iterations_completed": its});
        match &mv {
            None if !legal.is_empty() => {
                return Err(Failure::new(if its == 0 { "none-with-legal-moves-no-iteration-completed" } else { "none-with-legal-moves" }, d));
            }
            Some(m) if legal.is_empty() => return Err(Failure::new("move-in-terminal-position", json!({"history": log, "current_position": cur.fen4(), "returned": m}))),
            Some(m) if !legal.contains(m) => return Err(Failure::new("illegal-bestmove", d)),
            _ => {}
        }
        if budget.is_none() {
            last_nodes = nodes.max(10);
        }
        if let Some(sc) = fl.verif_searcher().verif_timer().verif.infos.borrow().last().map(|i| i.1) {
            if sc.abs() >= 32767 {
                mates_seen = true;
                stats.class("S_search_that_reported_a_forced_mate");
            }
        }
        stats.class("S_searches_in_engine_played_games");
        if legal.len() >= 2 && searches >= 1 {
            stats.nontrivial(&format!("{:?}", log));
        }
        searches += 1;
        let Some(best) = mv else {
            stats.class("S_game_played_to_its_end");
            break;
        };
        // what happens next in the game
        match s.weighted(&[70, 18, 12]) {
            1 => {
                // a human-like deviation: some legal move instead of the answer
                let lm = cur.legal_moves();
                let m = gen::choose_move(&mut s, &cur, &lm).unwrap();
                game.push((cur.clone(), m.uci()));
                cur = cur.make(m);
                stats.class("S_deviation_from_the_answer");
            }
            2 if !game.is_empty() => {
                // take back one or two plies; the position searched before is searched again
                let back = 1 + s.below(2.min(game.len()));
                for _ in 0..back {
                    let (p, _) = game.pop().unwrap();
                    cur = p;
                }
                stats.class("S_take_back");
            }
            _ => {
                let m = cur.find_uci(&best).unwrap();
                game.push((cur.clone(), best.clone()));
                cur = cur.make(m);
            }
        }
    }
    if mates_seen {
        stats.class("S_games_with_a_forced_mate_seen");
    }
    if veteran {
        stats.class("S_games_on_an_engine_with_full_tables");
        stats.maximum("S_heavy_nodes_searched_during_a_game", heavy_nodes as i64);
    }
    stats.sample(|| json!({"layer": "A-selfplay", "ops": log}));
    Ok(())
}

fn gen_go(s: &mut Src, cheap_depth: bool) -> String {
    match s.weighted(&[if cheap_depth { 30 } else { 0 }, 30, 40]) {
        0 => format!("go depth {}", 1 + s.below(3)),
        1 => format!("go movetime {}", *s.pick(&[0u32, 1, 3, 10, 40])),
        _ => {
            let mut pairs = vec![
                ("wtime", s.below(12_001) as u64),
                ("btime", s.below(12_001) as u64),
                ("winc", *s.pick(&[0u64, 0, 1, 50, 50, 300])),
                ("binc", *s.pick(&[0u64, 0, 1, 50, 50, 300])),
            ];
            if s.chance(25) {
                pairs.truncate(2);
            }
            // any order
            for i in (1..pairs.len()).rev() {
                let j = s.below(i + 1);
                pairs.swap(i, j);
            }
            let mut t = String::from("go");
            for (k, v) in pairs {
                t.push_str(&format!(" {} {}", k, v));
            }
            t
        }
    }
}

fn part_b(bytes: &[u8], stats: &mut Stats) -> Verdict {
    let mut s = Src::new(bytes);
    let mut lines: Vec<String> = Vec::new();
    if s.chance(50) {
        lines.push("ucinewgame".into());
    }
    let rounds = 1 + s.below(5);
    let mut cur = Pos::startpos();
    for r in 0..rounds {
        if r == 0 || s.chance(80) {
            let line = script::gen_cheap_position(&mut s, 3, 150_000, 30);
            if let script::Line::Position { text, result, .. } = line {
                lines.push(text);
                cur = result;
            }
        }
        let cheap = script::cheap_search(&cur, 3, 150_000);
        lines.push(gen_go(&mut s, cheap));
        lines.push("isready".into());
    }
    judge_script(&lines, stats)
}

/// Layer B, part 'B-game': the real binary plays a game against itself under a real clock, the way
/// a GUI runs it: position (whole game restated), go with both clocks and increments (clocks run
/// down from a few seconds, on both sides of the 5 s reserve), the answer is played and charged to
/// the mover's clock.  Every answer must be exactly one bestmove line with a move legal in the
/// position last set (0000 only at the end of the game).
fn part_b_game(bytes: &[u8], stats: &mut Stats) -> Verdict {
    let mut s = Src::new(bytes);
    let start = match s.weighted(&[45, 20, 35]) {
        0 => g_decisive(&mut s),
        1 => Pos::startpos(),
        _ => gen::g_small(&mut s).0,
    };
    let base = format!("position fen {}", start.fen(0, 1));
    let mut clocks = [*s.pick(&[400u64, 2_000, 5_200, 6_000, 7_500]), *s.pick(&[400u64, 2_000, 5_200, 6_000, 7_500])];
    let inc = *s.pick(&[0u64, 0, 20, 50]);
    let plies = 4 + s.below(12);
    let mut p = match Proc::spawn() {
        Ok(p) => p,
        Err(e) => return Err(Failure::new("harness-no-engine", json!({"error": e}))),
    };
    let mut sent: Vec<String> = Vec::new();
    let mut cur = start.clone();
    let mut moves: Vec<String> = Vec::new();
    if s.chance(40) {
        p.send("ucinewgame");
        sent.push("ucinewgame".into());
    }
    for ply in 0..plies {
        let mut cmd = base.clone();
        if !moves.is_empty() {
            cmd.push_str(" moves ");
            cmd.push_str(&moves.join(" "));
        }
        let go = format!("go wtime {} btime {} winc {} binc {}", clocks[0], clocks[1], inc, inc);
        p.send(&cmd);
        p.send(&go);
        p.send("isready");
        sent.push(cmd);
        sent.push(go);
        sent.push("isready".into());
        let t0 = std::time::Instant::now();
        stats.eval();
        let out = match p.read_until_or_idle("readyok", Duration::from_secs(25), Duration::from_secs(4)) {
            Ok(l) => l,
            Err(Wait::Timeout) => return Err(Failure::new("harness-timeout-waiting-for-bestmove", json!({"script": sent, "stdout": p.transcript}))),
            Err(Wait::Idle) => return Err(Failure::new("go-not-answered-engine-idle", json!({"script": sent, "stdout": p.transcript}))),
            Err(_) => {
                let code = p.wait_exit(Duration::from_secs(2));
                return Err(Failure::new("process-died", json!({"script": sent, "stdout": p.transcript, "exit_code": code})));
            }
        };
        let spent = t0.elapsed().as_millis() as u64;
        let best: Vec<&String> = out.iter().filter(|l| l.starts_with("bestmove")).collect();
        let legal: Vec<String> = cur.legal_moves().iter().map(|m| m.uci()).collect();
        let d = json!({"script": sent, "position": cur.fen4(), "answer_lines": out, "legal_moves": legal.len()});
        if best.len() != 1 {
            return Err(Failure::new(if best.is_empty() { "no-bestmove-line" } else { "several-bestmove-lines" }, d));
        }
        let mv = best[0].split_whitespace().nth(1).unwrap_or("").to_string();
        if legal.is_empty() {
            if mv != "0000" {
                return Err(Failure::new("move-in-terminal-position", d));
            }
            stats.class("B_game_played_to_its_end");
            break;
        } else if mv == "0000" {
            let completed = out.iter().any(|l| l.starts_with("info depth"));
            return Err(Failure::new(if completed { "bestmove-0000-with-legal-moves" } else { "bestmove-0000-with-legal-moves-no-iteration-completed" }, d));
        } else if !legal.iter().any(|m| *m == mv) {
            return Err(Failure::new("illegal-bestmove", d));
        }
        stats.class("B_game_searches_under_a_running_clock");
        if ply >= 1 && legal.len() >= 2 {
            stats.nontrivial(&sent);
        }
        // the clock of the mover runs down by what the move took (never below zero), plus the increment
        let side = if cur.stm == refchess::Color::W { 0 } else { 1 };
        clocks[side] = clocks[side].saturating_sub(spent) + inc;
        let m = cur.find_uci(&mv).unwrap();
        moves.push(mv);
        cur = cur.make(m);
    }
    p.send("quit");
    stats.class("B_games");
    stats.sample(|| json!({"layer": "B-game", "script": sent}));
    Ok(())
}

/// Layer B oracle for one script (every go is followed by an isready barrier): the real binary,
/// exactly one bestmove line per go, legal in the position last set (read from the same command
/// lines by the reference), 0000 iff that position has no legal move.
fn judge_script(lines: &[String], stats: &mut Stats) -> Verdict {
    let mut p = match Proc::spawn() {
        Ok(p) => p,
        Err(e) => return Err(Failure::new("harness-no-engine", json!({"error": e}))),
    };
    let mut sent: Vec<String> = Vec::new();
    let mut searches = 0;
    let mut i = 0;
    while i < lines.len() {
        let l = &lines[i];
        p.send(l);
        sent.push(l.clone());
        i += 1;
        if l.split_whitespace().next() != Some("go") {
            continue;
        }
        let go = l.clone();
        if lines.get(i).map(|x| x.trim()) == Some("isready") {
            sent.push("isready".into());
            i += 1;
        }
        p.send("isready");
        let cur = script::ref_current(&sent).map_err(|e| Failure::new("harness-bad-script", json!({"error": e})))?;
        stats.eval();
        let out = match p.read_until_or_idle("readyok", Duration::from_secs(25), Duration::from_secs(4)) {
            Ok(l) => l,
            Err(Wait::Timeout) => {
                return Err(Failure::new("harness-timeout-waiting-for-bestmove", json!({"script": sent, "stdout": p.transcript})));
            }
            Err(Wait::Idle) => {
                // alive, idle, and the go (or the isready behind it) has not been answered
                return Err(Failure::new("go-not-answered-engine-idle", json!({"script": sent, "stdout": p.transcript})));
            }
            Err(_) => {
                let code = p.wait_exit(Duration::from_secs(2));
                return Err(Failure::new("process-died", json!({"script": sent, "stdout": p.transcript, "exit_code": code})));
            }
        };
        let best: Vec<&String> = out.iter().filter(|l| l.starts_with("bestmove")).collect();
        let legal: Vec<String> = cur.legal_moves().iter().map(|m| m.uci()).collect();
        let d = json!({"script": sent, "position": cur.fen4(), "answer_lines": out, "legal_moves": legal.len()});
        if best.len() != 1 {
            return Err(Failure::new(if best.is_empty() { "no-bestmove-line" } else { "several-bestmove-lines" }, d));
        }
        let mv = best[0].split_whitespace().nth(1).unwrap_or("");
        if legal.is_empty() {
            if mv != "0000" {
                return Err(Failure::new("move-in-terminal-position", d));
            }
        } else if mv == "0000" {
            let completed = out.iter().any(|l| l.starts_with("info depth"));
            return Err(Failure::new(if completed { "bestmove-0000-with-legal-moves" } else { "bestmove-0000-with-legal-moves-no-iteration-completed" }, d));
        } else if !legal.iter().any(|m| m == mv) {
            return Err(Failure::new("illegal-bestmove", d));
        }
        let no_info = !out.iter().any(|l| l.starts_with("info depth"));
        if no_info {
            stats.class("B_no_iteration_completed");
        }
        stats.class(&format!("B_go_{}", go.split_whitespace().nth(1).unwrap_or("?")));
        if legal.len() >= 2 && (searches >= 1 || no_info) {
            stats.nontrivial(&sent);
        }
        searches += 1;
    }
    p.send("quit");
    stats.sample(|| json!({"layer": "B", "script": sent}));
    Ok(())
}

pub fn run(tier: Tier, seed: u64, known: &Known) -> PropRun {
    let mut run = PropRun::new("exploration", RULE);
    run.assumptions = vec![
        "Layer A sends 'go depth d' through the real command handler and observes the in-process image of the bestmove line it prints (hook beside the println); Layer B observes the printed line of the real process".into(),
        "a node-count budget (hook) is the deterministic image of a wall-clock budget; Nodes(0) = movetime 0".into(),
        "Layer B: a go that is still being worked on after 25 s is inconclusive (exit 2), not a violation; an engine that sits idle (no output, CPU time not increasing for 4 s) with a go unanswered has not answered it".into(),
    ];
    let part = Part { name: "A", cases: tier.pick(2_500, 80_000), min_len: 24, max_len: 900, max_shrink: 300, threads: threads() };
    let (st, fl) = run_part(&part, seed, known, part_a);
    run.stats.merge(st);
    if fl.is_some() {
        run.failure = fl;
        return run;
    }
    let part = Part { name: "twins", cases: tier.pick(2_500, 60_000), min_len: 24, max_len: 500, max_shrink: 300, threads: threads() };
    let (st, fl) = run_part(&part, seed, known, part_twins);
    run.stats.merge(st);
    if fl.is_some() {
        run.failure = fl;
        return run;
    }
    let part = Part { name: "selfplay", cases: tier.pick(800, 40_000), min_len: 24, max_len: 400, max_shrink: 200, threads: threads() };
    let (st, fl) = run_part(&part, seed, known, part_selfplay);
    run.stats.merge(st);
    if fl.is_some() {
        run.failure = fl;
        return run;
    }
    if crate::blackbox::engine_path().is_none() {
        run.inconclusive = Some("engine binary not built".into());
        return run;
    }
    let part = Part { name: "B", cases: tier.pick(150, 3_000), min_len: 24, max_len: 900, max_shrink: 40, threads: threads() };
    let (st, fl) = run_part(&part, seed, known, part_b);
    run.stats.merge(st);
    run.failure = fl;
    if run.failure.is_none() {
        let part = Part { name: "B-game", cases: tier.pick(64, 1_500), min_len: 24, max_len: 300, max_shrink: 10, threads: threads() };
        let (st, fl) = run_part(&part, seed, known, part_b_game);
        run.stats.merge(st);
        run.failure = fl;
    }
    run
}

/// Structural replay of a layer-A case: the saved history (command lines and searches) is run
/// through a fresh engine; the reference reads the same command lines.
fn replay_history(hist: &[Value], stats: &mut Stats) -> Verdict {
    let mut fl = Flounder::new();
    let mut lines: Vec<String> = Vec::new();
    let mut log: Vec<Value> = Vec::new();
    for item in hist {
        log.push(item.clone());
        if let Some(cmd) = item.as_str() {
            lines.push(cmd.to_string());
            if let Err(pn) = std::panic::catch_unwind(std::panic::AssertUnwindSafe(|| fl.verif_handle_command(cmd))) {
                return Err(Failure::new("command-panic", json!({"history": log, "panic": crate::panic_text(&pn)})));
            }
            continue;
        }
        if let Some(n) = item.get("tiny_searches").and_then(|x| x.as_u64()) {
            // the warm-up of several hundred tiny searches (its answers were judged when it was generated)
            for i in 0..n as usize {
                let fen = TINY[i % TINY.len()];
                let r = std::panic::catch_unwind(std::panic::AssertUnwindSafe(|| {
                    fl.verif_handle_command(&format!("position fen {}", fen));
                    go_through_handler(&mut fl, 1, None, 600_000)
                }));
                if let Err(pn) = r {
                    return Err(Failure::new("command-panic", json!({"history": log, "panic": crate::panic_text(&pn)})));
                }
            }
            continue;
        }
        let depth = item.get("search_depth").and_then(|x| x.as_u64()).unwrap_or(1) as u8;
        let budget = item.get("budget_nodes").and_then(|x| x.as_u64());
        let cur = script::ref_current(&lines).map_err(|e| Failure::new("harness-bad-replay-file", json!({"error": e})))?;
        let r = std::panic::catch_unwind(std::panic::AssertUnwindSafe(|| go_through_handler(&mut fl, depth, budget, 5_000_000)));
        stats.eval();
        let (mv, its) = match r {
            Ok((Ok(mv), _, its)) => (mv, its),
            Ok((Err(lines), _, _)) => return Err(Failure::new("not-exactly-one-bestmove-line", json!({"history": log, "bestmove_lines": lines}))),
            Err(pn) => return Err(Failure::new("command-panic", json!({"history": log, "panic": crate::panic_text(&pn)}))),
        };
        let legal: Vec<String> = cur.legal_moves().iter().map(|m| m.uci()).collect();
        let d = json!({"history": log, "current_position": cur.fen4(), "returned": mv, "legal_moves": legal.len(), "iterations_completed": its});
        match &mv {
            None if !legal.is_empty() => {
                return Err(Failure::new(if its == 0 { "none-with-legal-moves-no-iteration-completed" } else { "none-with-legal-moves" }, d));
            }
            Some(_) if legal.is_empty() => return Err(Failure::new("move-in-terminal-position", d)),
            Some(m) if !legal.contains(m) => return Err(Failure::new("illegal-bestmove", d)),
            _ => {}
        }
    }
    Ok(())
}

pub fn replay(part: &str, bytes: &[u8], case: &Value, stats: &mut Stats) -> Verdict {
    if part != "B" && part != "B-game" {
        if let Some(h) = case.get("history").and_then(|x| x.as_array()) {
            return replay_history(h, stats);
        }
    } else if let Some(a) = case.get("script").and_then(|x| x.as_array()) {
        let lines: Vec<String> = a.iter().filter_map(|x| x.as_str().map(|s| s.to_string())).collect();
        return judge_script(&lines, stats);
    }
    match part {
        "twins" => part_twins(bytes, stats),
        "selfplay" => part_selfplay(bytes, stats),
        "B" => part_b(bytes, stats),
        "B-game" => part_b_game(bytes, stats),
        _ => part_a(bytes, stats),
    }
}

/// Byte-level entry for the fuzz target: layer A (in-process, stateful).
pub fn fuzz_entry(bytes: &[u8]) -> Verdict {
    let mut st = Stats::new();
    // one execution in eight plays a game out (part 'selfplay' without its heavy warm-ups)
    if bytes.first().map(|b| b & 0xe0 == 0xe0).unwrap_or(false) {
        NO_HEAVY.with(|c| c.set(true));
        part_selfplay(bytes, &mut st)
    } else {
        part_a(bytes, &mut st)
    }
}
