//! C02 — playing a move yields exactly the successor position.

use crate::eng;
use crate::gen;
use crate::props::{guarded, threads};
use crate::runner::{run_part, Failure, Known, Part, Verdict};
use crate::src::Src;
use crate::stats::Stats;
use crate::{PropRun, Tier};
use flsrc::board::Board;
use refchess::{Kind, Mv, Pos};
use serde_json::{json, Value};

pub const RULE: &str = "(valid position, legal move) pairs: every legal move of each position from the C01 mixture, and lock-step playouts of 0..300 plies (weighted toward castling, ep, promotions onto corners, king/rook moves). Enumerated parts (grid.rs): the castling-rights bookkeeping grid (kings and four rooks at home, every subset of the rights, either side to move, one further man of every kind and colour on every square: every legal move played, both by make_move and by clone_with_move) and every legal move of the check-geometry grid of C01/C17. Oracle: engine board after make_move/clone_with_move compared with the reference successor on placement (64 squares), side to move, four castling rights, ep target (exact when an enemy pawn stands beside the pushed pawn, else rule-book square or none), and internal consistency (piece bitboards disjoint, colours disjoint, unions equal, one king each); no panic. Non-trivial step = castle, ep, promotion, double push, king/rook move while a right is held, capture on a corner whose right is held; distinct by (FEN before, move).";

fn step_class(p: &Pos, m: Mv) -> Option<&'static str> {
    let i = p.info(m);
    let (_, k) = p.sq[m.from as usize].unwrap();
    if i.castle {
        return Some("castle");
    }
    if i.ep {
        return Some("ep");
    }
    if i.promo {
        return Some(if i.capture { "promotion_capture" } else { "promotion" });
    }
    if i.double_push {
        return Some("double_push");
    }
    let any_right = p.castle.iter().any(|c| *c);
    if any_right {
        let corner_right = |s: u8| match s {
            7 => p.castle[0],
            0 => p.castle[1],
            63 => p.castle[2],
            56 => p.castle[3],
            _ => false,
        };
        if i.capture && corner_right(m.to) {
            return Some("capture_on_corner_with_right");
        }
        let mover_rights = if p.stm == refchess::Color::W { p.castle[0] || p.castle[1] } else { p.castle[2] || p.castle[3] };
        if mover_rights && (k == Kind::K || (k == Kind::R && corner_right(m.from))) {
            return Some("king_or_rook_move_with_right");
        }
    }
    None
}

/// Plays `m` on the engine board (found by its UCI string in the engine's own list, as uci.rs
/// does) and compares with the reference successor.
pub fn step(b: &Board, p: &Pos, m: Mv, in_place: bool, stats: &mut Stats) -> Result<(Board, Pos), Failure> {
    let g = eng::mg();
    let uci = m.uci();
    let fen = eng::fen(&p);
    let em = guarded("generate_moves", || eng::find_engine_move(&g, b, &uci))?;
    let Some(em) = em else {
        return Err(Failure::new("move-not-generated", json!({"fen": fen, "move": uci})));
    };
    let nb = match std::panic::catch_unwind(std::panic::AssertUnwindSafe(|| {
        if in_place {
            let mut c = *b;
            c.make_move(&em);
            c
        } else {
            b.clone_with_move(&em)
        }
    })) {
        Ok(x) => x,
        Err(pn) => return Err(Failure::new("make-move-panic", json!({"fen": fen, "move": uci, "panic": crate::panic_text(&pn)}))),
    };
    let np = p.make(m);
    stats.eval();
    if let Err(why) = eng::compare_board(&nb, &np) {
        let kind = if why.contains("castling") {
            "wrong-castling-rights"
        } else if why.contains("ep target") {
            "wrong-ep-target"
        } else if why.contains("side to move") {
            "wrong-side-to-move"
        } else if why.contains("square") {
            "wrong-placement"
        } else {
            "inconsistent-board"
        };
        return Err(Failure::new(kind, json!({"fen": fen, "move": uci, "move_kind": format!("{:?}", p.info(m)), "expected": eng::fen(&np), "why": why})));
    }
    if let Some(c) = step_class(p, m) {
        stats.class(c);
        stats.nontrivial(&(p.fen4(), uci.clone()));
        stats.sample(|| json!({"fen": fen, "move": uci, "kind": c, "after": np.fen4()}));
    }
    Ok((nb, np))
}

/// Lock-step game from a start position (structural form of a playout case).
pub fn check_game(start: &Pos, moves: &[String], in_place: bool, stats: &mut Stats) -> Verdict {
    let mut b = guarded("Board::new", || eng::to_board(start))?;
    let mut p = start.clone();
    for (i, uci) in moves.iter().enumerate() {
        let Some(m) = p.find_uci(uci) else {
            return Err(Failure::new("harness-illegal-move-in-replay", json!({"fen": eng::fen(&p), "move": uci})));
        };
        match step(&b, &p, m, in_place, stats) {
            Ok((nb, np)) => {
                b = nb;
                p = np;
            }
            Err(mut f) => {
                f.detail["replay"] = json!({"start_fen": eng::fen(&start), "moves": moves[..=i].to_vec(), "in_place": in_place});
                return Err(f);
            }
        }
    }
    Ok(())
}

fn part_allmoves(bytes: &[u8], stats: &mut Stats) -> Verdict {
    let mut s = Src::new(bytes);
    let (p, kind) = gen::g_mix(&mut s);
    stats.class(&format!("gen_{}", kind));
    let b = guarded("Board::new", || eng::to_board(&p))?;
    for m in p.legal_moves() {
        step(&b, &p, m, false, stats).map_err(|mut f| {
            f.detail["replay"] = json!({"start_fen": eng::fen(&p), "moves": [m.uci()], "in_place": false});
            f
        })?;
    }
    Ok(())
}

fn part_playouts(bytes: &[u8], stats: &mut Stats) -> Verdict {
    let mut s = Src::new(bytes);
    let start = if s.chance(75) { gen::pool_pos(s.below(gen::POOL.len())) } else { gen::g_mix(&mut s).0 };
    let in_place = s.bool();
    let n = gen::ply_count(&mut s, 300);
    let (steps, _) = gen::playout(&mut s, &start, n);
    stats.class("playouts");
    stats.class_n("playout_plies", steps.len() as u64);
    let moves: Vec<String> = steps.iter().map(|x| x.1.uci()).collect();
    check_game(&start, &moves, in_place, stats)
}

fn judge_grid(it: &crate::grid::GridItem, stats: &mut Stats) -> Verdict {
    let built = if it.fam == 5 { crate::grid::build_rights(it) } else { crate::grid::build(it) };
    let Some(p) = built else {
        stats.exclude("grid combination that is not a valid position");
        return Ok(());
    };
    stats.class(if it.fam == 5 { "grid_castling_rights_bookkeeping" } else { crate::grid::describe(it) });
    eng::set_counter_wish(0, 1);
    let b = guarded("Board::new", || eng::to_board(&p))?;
    for m in p.legal_moves() {
        for in_place in [false, true] {
            step(&b, &p, m, in_place, stats).map_err(|mut f| {
                f.detail["replay"] = json!({"start_fen": eng::fen(&p), "moves": [m.uci()], "in_place": in_place});
                f
            })?;
        }
    }
    Ok(())
}

pub fn run(tier: Tier, seed: u64, known: &Known) -> PropRun {
    let mut run = PropRun::new("exploration", RULE);
    run.assumptions = vec![
        "the reference successor function (refchess::Pos::make) is the rule-book successor; the reference is perft-validated at start-up".into(),
        "ep convention: the engine may name the ep square after every double push or only when a capture is pseudo-possible".into(),
    ];
    let parts: [(&str, u64, usize, fn(&[u8], &mut Stats) -> Verdict); 2] = [
        ("allmoves", tier.pick(200_000, 1_000_000), 160, part_allmoves),
        ("playouts", tier.pick(12_000, 60_000), 700, part_playouts),
    ];
    // enumerated parts first: the castling-rights bookkeeping grid and the check-geometry grid
    // (grid.rs) — every legal move of every grid position is played, both ways of playing it
    let mut items = crate::grid::rights_items();
    let n_rights = items.len();
    items.extend(crate::grid::items());
    run.stats.class_n("rights_grid_items_enumerated", n_rights as u64);
    run.stats.class_n("geometry_grid_items_enumerated", (items.len() - n_rights) as u64);
    let (st, fail) = crate::runner::run_enumerated("grid", &items, threads(), seed, known, |it, st| judge_grid(it, st));
    run.stats.merge(st);
    if fail.is_some() {
        run.failure = fail;
        return run;
    }
    for (name, cases, max_len, f) in parts {
        let part = Part { name, cases, min_len: 8, max_len, max_shrink: 4000, threads: threads() };
        let (st, fail) = run_part(&part, seed, known, f);
        run.stats.merge(st);
        if fail.is_some() {
            run.failure = fail;
            break;
        }
    }
    run
}

/// Structural replay: a start position and the moves played from it.
fn replay_case(case: &Value, stats: &mut Stats) -> Option<Verdict> {
    let r = case.get("replay")?;
    let start = eng::pos_from_saved_fen(r.get("start_fen")?.as_str()?)?;
    let moves: Vec<String> = r.get("moves")?.as_array()?.iter().filter_map(|m| m.as_str().map(|s| s.to_string())).collect();
    let in_place = r.get("in_place").and_then(|x| x.as_bool()).unwrap_or(false);
    Some(check_game(&start, &moves, in_place, stats))
}

/// Old files: {fen, move} of an all-moves case.
fn replay_fen_move(case: &Value, stats: &mut Stats) -> Option<Verdict> {
    if case.get("start_fen").is_some() {
        let start = eng::pos_from_saved_fen(case.get("start_fen")?.as_str()?)?;
        let mut moves: Vec<String> = case.get("moves_before")?.as_array()?.iter().filter_map(|m| m.as_str().map(|s| s.to_string())).collect();
        moves.push(case.get("move")?.as_str()?.to_string());
        return Some(check_game(&start, &moves, false, stats).and(check_game(&start, &moves, true, stats)));
    }
    let p = eng::pos_from_saved_fen(case.get("fen")?.as_str()?)?;
    let mv = vec![case.get("move")?.as_str()?.to_string()];
    Some(check_game(&p, &mv, false, stats).and(check_game(&p, &mv, true, stats)))
}

pub fn replay(part: &str, bytes: &[u8], case: &Value, stats: &mut Stats) -> Verdict {
    if let Some(v) = replay_case(case, stats).or_else(|| replay_fen_move(case, stats)) {
        return v;
    }
    match part {
        "allmoves" => part_allmoves(bytes, stats),
        "playouts" => part_playouts(bytes, stats),
        _ => Err(Failure::new("unknown-part", json!({"part": part}))),
    }
}

/// Byte-level entry for the fuzz target (same decoder, same oracle).
pub fn fuzz_entry(bytes: &[u8]) -> Verdict {
    let mut st = Stats::new();
    if bytes.first().map(|b| b & 1 == 1).unwrap_or(false) {
        part_playouts(&bytes[1..], &mut st)
    } else {
        part_allmoves(bytes.get(1..).unwrap_or(&[]), &mut st)
    }
}
