//! C16 — protocol handshake, tolerance of unknown input, clean termination (black-box).

use crate::blackbox::{Proc, Wait};
use crate::runner::{run_part, Failure, Known, Part, Verdict};
use crate::script::{self, Line};
use crate::src::Src;
use crate::stats::Stats;
use crate::{PropRun, Tier};
use serde_json::{json, Value};
use std::time::Duration;

pub const RULE: &str = "scripts of 0..25 lines (one in twenty-five: 260..760 lines, mostly cheap ones) over the real binary's stdin: uci / isready / ucinewgame / valid position commands (a third of them continuing the previous one's game by one or two moves, also across a ucinewgame) / cheap go commands (depth 1..2 on pre-screened positions, movetime <= 20) / unknown lines (first token not a command, no command word as a later token; ASCII, UTF-8, lines containing bytes that are not valid UTF-8, and very long lines up to 70 000 characters) / blank lines, interleaved; ending in quit (possibly with further lines after it) or in end of input (with or without a final newline; stdin closed immediately or after the transcript is complete). Oracle: stdout must parse, with nothing left over and nothing missing, against the slot sequence derived line by line (uci -> 'id ' lines [+ 'option ' lines] then 'uciok'; isready -> 'readyok'; go -> info* then exactly one bestmove; everything else -> nothing; nothing after quit), and the process must exit with status 0 after quit and after end of input (5 s allowance on an idle process; still-alive is corroborated by CPU time still increasing). Non-trivial = >=1 unknown or blank line between two answered commands, or ends by EOF; distinct by script text.";

#[derive(Debug, Clone, PartialEq)]
enum Slot {
    Uci,
    ReadyOk,
    Go,
}

struct Script {
    lines: Vec<Line>,
    after_quit: Vec<String>,
    ends_with_quit: bool,
    final_newline: bool,
    close_early: bool,
}

fn gen_script(s: &mut Src) -> Script {
    // one script in twenty-five is LONG (260..760 lines, mostly cheap ones): whatever counts lines or
    // commands in a small integer gets to its limit
    let long = s.chance(4);
    let n = if long { 260 + s.below(500) } else { s.below(26) };
    let weights: [usize; 7] = if long { [10, 30, 3, 2, 1, 34, 20] } else { [12, 22, 6, 14, 14, 20, 12] };
    let mut lines: Vec<Line> = Vec::new();
    let mut have_pos: Option<bool> = None; // Some(cheap) once a position was set
    for _ in 0..n {
        let l = match s.weighted(&weights) {
            0 => Line::Uci,
            1 => Line::IsReady,
            2 => {
                have_pos = None;
                Line::NewGame
            }
            3 => {
                have_pos = Some(true);
                // a third of the position lines continue the game of the previous position line by
                // one or two moves (a GUI restates the whole game) — also across a ucinewgame
                let prev = lines.iter().rev().find_map(|l| match l {
                    Line::Position { text, result, history } => Some((text.clone(), result.clone(), history.clone())),
                    _ => None,
                });
                match prev {
                    Some((text, result, history)) if s.chance(35) => {
                        let mut t = text.trim_end().to_string();
                        let mut p = result.clone();
                        let mut h = history.clone();
                        let mut has_moves = t.split_whitespace().any(|x| x == "moves");
                        for _ in 0..1 + s.below(2) {
                            let legal = p.legal_moves();
                            let Some(m) = crate::gen::choose_move(s, &p, &legal) else { break };
                            if !has_moves {
                                t.push_str(" moves");
                                has_moves = true;
                            }
                            t.push(' ');
                            t.push_str(&m.uci());
                            p = p.make(m);
                            h.push(p.clone());
                        }
                        Line::Position { text: t, result: p, history: h }
                    }
                    _ => script::gen_cheap_position(s, 2, 60_000, 40),
                }
            }
            4 => {
                if have_pos.is_none() {
                    // searching the start position to depth 1..2 is cheap
                }
                let t = match s.below(3) {
                    0 => format!("go{}depth{}{}", script::sep(s), script::sep(s), 1 + s.below(2)),
                    1 => format!("go{}movetime{}{}", script::sep(s), script::sep(s), s.below(21)),
                    _ => format!("go depth {} movetime {}", 1 + s.below(2), 5 + s.below(16)),
                };
                Line::Go { text: t }
            }
            5 => Line::Unknown(script::gen_unknown(s)),
            _ => Line::Blank(script::gen_blank(s)),
        };
        lines.push(l);
    }
    let ends_with_quit = s.chance(45);
    let mut after_quit = Vec::new();
    if ends_with_quit && s.chance(40) {
        for _ in 0..1 + s.below(3) {
            after_quit.push(match s.below(3) {
                0 => "isready".to_string(),
                1 => "uci".to_string(),
                _ => script::gen_unknown(s),
            });
        }
    }
    // most EOF scripts end in an isready so that "transcript complete" is cheap to see
    if !ends_with_quit && s.chance(70) {
        lines.push(Line::IsReady);
    }
    let final_newline = s.chance(75);
    // without a final newline the last line is only complete at end of input: stdin must be closed at once
    let close_early = s.chance(50) || !final_newline;
    Script { lines, after_quit, ends_with_quit, final_newline, close_early }
}

fn expected_slots(lines: &[Line]) -> Vec<Slot> {
    lines
        .iter()
        .filter_map(|l| match l {
            Line::Uci => Some(Slot::Uci),
            Line::IsReady => Some(Slot::ReadyOk),
            Line::Go { .. } => Some(Slot::Go),
            _ => None,
        })
        .collect()
}

/// Parses the transcript against the slot sequence.  Ok(n) = number of slots completely filled and
/// whether the transcript is exactly complete.
fn parse(transcript: &[String], slots: &[Slot]) -> Result<(usize, bool), String> {
    let mut i = 0; // transcript index
    let mut filled = 0;
    for slot in slots {
        match slot {
            Slot::Uci => {
                let mut ids = 0;
                loop {
                    let Some(l) = transcript.get(i) else { return Ok((filled, false)) };
                    let t = l.trim_end();
                    if t.starts_with("id ") {
                        ids += 1;
                        i += 1;
                    } else if t.starts_with("option ") {
                        i += 1;
                    } else if t == "uciok" {
                        if ids == 0 {
                            return Err("uciok without a preceding id line".into());
                        }
                        i += 1;
                        break;
                    } else {
                        return Err(format!("while answering 'uci': unexpected line {:?}", l));
                    }
                }
            }
            Slot::ReadyOk => {
                let Some(l) = transcript.get(i) else { return Ok((filled, false)) };
                if l.trim_end() != "readyok" {
                    return Err(format!("expected 'readyok', got {:?}", l));
                }
                i += 1;
            }
            Slot::Go => loop {
                let Some(l) = transcript.get(i) else { return Ok((filled, false)) };
                let t = l.trim_end();
                if t.starts_with("info") {
                    i += 1;
                } else if t.starts_with("bestmove") {
                    i += 1;
                    break;
                } else {
                    return Err(format!("while answering 'go': unexpected line {:?}", l));
                }
            },
        }
        filled += 1;
    }
    if i < transcript.len() {
        return Err(format!("output nobody asked for: {:?}", transcript[i]));
    }
    Ok((filled, true))
}

/// Slots of a script given as text (structural replay): by first token, up to the first quit.
fn slots_of_text(lines: &[String]) -> Vec<Slot> {
    let mut v = Vec::new();
    for l in lines {
        match l.split_whitespace().next() {
            Some("quit") => break,
            Some("uci") => v.push(Slot::Uci),
            Some("isready") => v.push(Slot::ReadyOk),
            Some("go") => v.push(Slot::Go),
            _ => {}
        }
    }
    v
}

fn check(bytes: &[u8], stats: &mut Stats) -> Verdict {
    let mut s = Src::new(bytes);
    let sc = gen_script(&mut s);
    let slots = expected_slots(&sc.lines);
    let mut text_lines: Vec<String> = sc.lines.iter().map(|l| l.text()).collect();
    if sc.ends_with_quit {
        text_lines.push("quit".into());
        text_lines.extend(sc.after_quit.iter().cloned());
    }
    if slots != slots_of_text(&text_lines) {
        return Err(Failure::new("harness-slot-derivation-mismatch", json!({"script": text_lines})));
    }
    judge(&sc, &text_lines, stats)
}

/// The oracle for one script.
fn judge(sc: &Script, text_lines: &[String], stats: &mut Stats) -> Verdict {
    let text_lines: Vec<String> = text_lines.to_vec();
    let slots = slots_of_text(&text_lines);
    let mut payload: Vec<u8> = Vec::new();
    for (i, l) in text_lines.iter().enumerate() {
        if i > 0 {
            payload.push(b'\n');
        }
        payload.extend(script::raw_bytes(l));
    }
    if sc.final_newline && !text_lines.is_empty() {
        payload.push(b'\n');
    }
    let has_raw = text_lines.iter().any(|l| l.contains(script::RAW_BYTE_MARK));
    let desc = json!({"script": text_lines, "final_newline": sc.final_newline, "ends_with_quit": sc.ends_with_quit, "stdin_closed_before_answers": sc.close_early});
    let mut p = match Proc::spawn() {
        Ok(p) => p,
        Err(e) => return Err(Failure::new("harness-no-engine", json!({"error": e}))),
    };
    if std::env::var("VERIF_DEBUG").is_ok() {
        eprintln!("C16 script: {}", desc);
    }
    p.send_raw(&payload);
    if sc.close_early {
        p.close_stdin();
    }
    stats.eval();
    // read until the transcript is complete (or the process ends)
    let per_go = Duration::from_secs(20);
    let n_go = slots.iter().filter(|x| **x == Slot::Go).count() as u32;
    let deadline = std::time::Instant::now() + Duration::from_secs(5) + per_go * n_go;
    let mut last_ticks = p.cpu_ticks();
    let mut idle_since = std::time::Instant::now();
    loop {
        match parse(&p.transcript, &slots) {
            Err(why) => {
                let sig = if why.contains("nobody asked") { "unexpected-output" } else { "wrong-protocol-output" };
                return Err(Failure::new(sig, json!({"case": desc, "why": why, "stdout": p.transcript})));
            }
            Ok((_, true)) => break,
            Ok((_, false)) => {}
        }
        let left = deadline.saturating_duration_since(std::time::Instant::now());
        if left.is_zero() {
            return Err(Failure::new("harness-timeout-waiting-for-answers", json!({"case": desc, "stdout": p.transcript})));
        }
        match p.next_line(left.min(Duration::from_millis(500))) {
            Wait::Line(_) => {
                idle_since = std::time::Instant::now();
            }
            Wait::Idle => {}
            Wait::Timeout => {
                // alive but idle (no output, CPU time not increasing) with answers missing: they
                // will never come — no need to sit out the whole allowance
                let t = p.cpu_ticks();
                if t != last_ticks {
                    last_ticks = t;
                    idle_since = std::time::Instant::now();
                } else if idle_since.elapsed() >= Duration::from_secs(4) {
                    let filled = parse(&p.transcript, &slots).map(|x| x.0).unwrap_or(0);
                    return Err(Failure::new("missing-output", json!({"case": desc, "slots_expected": slots.len(), "slots_filled": filled, "stdout": p.transcript, "engine": "alive and idle"})));
                }
            }
            Wait::Eof => {
                // process closed stdout: whatever is missing is missing for good
                match parse(&p.transcript, &slots) {
                    Ok((_, true)) => break,
                    Ok((filled, false)) => {
                        let code = p.wait_exit(Duration::from_secs(2));
                        return Err(Failure::new("missing-output", json!({"case": desc, "slots_expected": slots.len(), "slots_filled": filled, "stdout": p.transcript, "exit_code": code})));
                    }
                    Err(why) => return Err(Failure::new("wrong-protocol-output", json!({"case": desc, "why": why, "stdout": p.transcript}))),
                }
            }
        }
    }
    // termination, judged with the process idle
    p.close_stdin();
    let code = p.wait_exit(Duration::from_secs(5));
    // drain anything printed after the expected transcript
    loop {
        match p.next_line(Duration::from_millis(50)) {
            Wait::Line(_) => {}
            _ => break,
        }
    }
    if let Err(why) = parse(&p.transcript, &slots) {
        return Err(Failure::new("unexpected-output", json!({"case": desc, "why": why, "stdout": p.transcript})));
    }
    match code {
        Some(0) => {}
        Some(c) => {
            return Err(Failure::new("nonzero-exit-status", json!({"case": desc, "exit_code": c, "stdout": p.transcript})));
        }
        None => {
            let t1 = p.cpu_ticks();
            std::thread::sleep(Duration::from_millis(300));
            let t2 = p.cpu_ticks();
            let spinning = matches!((t1, t2), (Some(a), Some(b)) if b > a);
            let sig = if !sc.ends_with_quit && spinning { "no-exit-on-end-of-input-spinning" } else if !sc.ends_with_quit { "no-exit-on-end-of-input" } else { "no-exit-on-quit" };
            return Err(Failure::new(sig, json!({"case": desc, "cpu_time_increasing": spinning, "stdout": p.transcript})));
        }
    }
    let mut gap = false;
    let mut answered_before = false;
    let mut pending_gap = false;
    for l in &sc.lines {
        match l {
            Line::Unknown(_) | Line::Blank(_) => {
                if answered_before {
                    pending_gap = true;
                }
            }
            Line::Uci | Line::IsReady | Line::Go { .. } => {
                if pending_gap {
                    gap = true;
                }
                answered_before = true;
            }
            _ => {}
        }
    }
    stats.class(if sc.ends_with_quit { "ends_with_quit" } else { "ends_with_eof" });
    if !sc.final_newline {
        stats.class("no_final_newline");
    }
    if gap {
        stats.class("unknown_or_blank_between_answered_commands");
    }
    if !sc.after_quit.is_empty() {
        stats.class("lines_after_quit");
    }
    if has_raw {
        stats.class("scripts_with_a_line_that_is_not_valid_UTF-8");
    }
    if text_lines.len() >= 256 {
        stats.class("scripts_of_256_or_more_lines");
    }
    if text_lines.iter().any(|l| l.len() >= 4_000) {
        stats.class("scripts_with_a_line_of_4000_or_more_characters");
    }
    if gap || !sc.ends_with_quit {
        stats.nontrivial(&payload);
    }
    stats.sample(|| json!({"script": text_lines, "stdout_lines": p.transcript.len(), "exit_code": code}));
    Ok(())
}

pub fn run(tier: Tier, seed: u64, known: &Known) -> PropRun {
    let mut run = PropRun::new("exploration", RULE);
    run.assumptions = vec![
        "lines end in LF; unknown lines may contain bytes that are not valid UTF-8 (command lines never do); stderr is not judged".into(),
        "termination is a liveness statement decided with a 5 s allowance on an idle process (about 300x the start-up time); a go that never answers is inconclusive (exit 2), not a violation".into(),
    ];
    if crate::blackbox::engine_path().is_none() {
        run.inconclusive = Some("engine binary not built".into());
        return run;
    }
    let part = Part { name: "scripts", cases: tier.pick(1_500, 20_000), min_len: 16, max_len: 1200, max_shrink: 60, threads: crate::props::threads() };
    let (st, fl) = run_part(&part, seed, known, check);
    run.stats.merge(st);
    run.failure = fl;
    run
}

pub fn replay(_part: &str, bytes: &[u8], case: &Value, stats: &mut Stats) -> Verdict {
    // structural replay: the saved script text
    let c = case.get("case").unwrap_or(case);
    if let Some(a) = c.get("script").and_then(|x| x.as_array()) {
        let text: Vec<String> = a.iter().filter_map(|x| x.as_str().map(|s| s.to_string())).collect();
        let ends_with_quit = c.get("ends_with_quit").and_then(|x| x.as_bool()).unwrap_or_else(|| text.iter().any(|l| l.trim() == "quit"));
        let final_newline = c.get("final_newline").and_then(|x| x.as_bool()).unwrap_or(true);
        let close_early = c.get("stdin_closed_before_answers").and_then(|x| x.as_bool()).unwrap_or(!final_newline);
        // line kinds are only needed for the statistics; the oracle works on the text
        let lines: Vec<Line> = text.iter().map(|t| Line::Unknown(t.clone())).collect();
        let sc = Script { lines, after_quit: Vec::new(), ends_with_quit, final_newline, close_early: close_early || !final_newline };
        return judge(&sc, &text, stats);
    }
    check(bytes, stats)
}
