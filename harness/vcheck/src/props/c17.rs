//! C17 — moves searched past the horizon are exactly captures, promotions and checks.

use crate::eng;
use crate::gen;
use crate::props::{guarded, threads};
use crate::refsearch::RefSearch;
use crate::runner::{run_part, Failure, Known, Part, Verdict};
use crate::src::Src;
use crate::stats::Stats;
use crate::{PropRun, Tier};
use flsrc::search::Searcher;
use refchess::{Kind, Pos};
use serde_json::{json, Value};

pub const RULE: &str = "(1) public API: positions from the C01 mixture plus discovered-check motifs (by ep capture removing two men from a line, by castling, by promotion / under-promotion), mover NOT in check: multiset(generate_quiescence_moves(p)) == { m legal : m captures (incl. ep) or promotes or the opponent's king is attacked after m }, computed entirely by the reference. (1b) ENUMERATED check-geometry grid (grid.rs) through the same public entry point: every direct check by every kind of man from every square (promotions giving check backwards through the vacated square), every discovered check (every slider line x every blocker kind x every in-between square), castling with the enemy king on every square (check on the file and along the back rank), en-passant captures with the enemy king on every square and an own slider on every aligned square (direct check, discovery by the capturer, by the victim, by both), en-passant pins; each also colour-mirrored and with one man of the other side added. After a position with castling rights the same placement with every smaller set of rights is asked on the same generator, and the original again. (2) what the search actually iterates over: with recording switched on (hook, one inserted line after search_until_quiet has chosen its list) find_best_move(p, 1..2) is run and for every recorded quiescence node: if its mover is in check the list must be ALL reference-legal moves, else the set of (1); the recorded in-check flag must agree with the reference. (3) deep lines: full middlegame / game / pool positions searched to depth 1..4, or the quiescence search called directly (hook verif_quiesce) with a generated window around the static value, under a node cap; only nodes at least 10 plies below the horizon are recorded and judged as in (2) — the statement puts no bound on how far beyond the nominal depth the rule holds; the deepest level reached is reported. Non-trivial = position has >=1 quiet checking move or >=1 discovered check, or is in check; distinct by FEN.";

fn classify(p: &Pos, stats: &mut Stats) -> bool {
    // quiet checking moves and discovered checks (the moved man does not itself attack the king)
    let mut quiet_check = false;
    let mut discovered = false;
    for m in p.legal_moves() {
        let i = p.info(m);
        let n = p.make(m);
        if n.in_check() {
            if !i.capture && !i.promo {
                quiet_check = true;
            }
            let k = n.king_sq(n.stm).unwrap();
            let attackers = n.attackers(k, p.stm);
            let dest_rook = if i.castle { Some(if m.to % 8 == 6 { m.to - 1 } else { m.to + 1 }) } else { None };
            if attackers.iter().any(|a| *a != m.to && Some(*a) != dest_rook) {
                discovered = true;
            }
            if i.castle {
                stats.class("castling_gives_check");
            }
            if i.ep {
                stats.class("ep_gives_check");
            }
            if i.promo && m.promo != Some(Kind::Q) {
                stats.class("underpromotion_gives_check");
            }
        }
    }
    if quiet_check {
        stats.class("has_quiet_check");
    }
    if discovered {
        stats.class("has_discovered_check");
    }
    quiet_check || discovered || p.in_check()
}

fn compare_lists(p: &Pos, got: &mut Vec<String>, via: &str) -> Verdict {
    let mut want: Vec<String> = RefSearch::tactical(p).iter().map(|m| m.uci()).collect();
    want.sort();
    got.sort();
    if *got != want {
        let missing: Vec<&String> = want.iter().filter(|m| !got.contains(m)).collect();
        let extra: Vec<&String> = got.iter().filter(|m| !want.contains(m)).collect();
        let sig = if p.in_check() {
            "in-check-node-not-all-legal-moves"
        } else if !missing.is_empty() {
            "tactical-move-missing"
        } else if !extra.is_empty() {
            "non-tactical-move-searched"
        } else {
            "duplicate-move"
        };
        return Err(Failure::new(sig, json!({"fen": eng::fen(&p), "observed_via": via, "mover_in_check": p.in_check(), "missing": missing, "extra": extra, "engine": got, "reference": want})));
    }
    Ok(())
}

fn part_api(bytes: &[u8], stats: &mut Stats) -> Verdict {
    let mut s = Src::new(bytes);
    let p = match s.weighted(&[60, 14, 13, 13]) {
        0 => gen::g_mix(&mut s).0,
        1 => gen::g_motif_n(&mut s, 9),
        2 => gen::g_motif_n(&mut s, 10),
        _ => gen::g_motif_n(&mut s, 11),
    };
    judge_api(&p, stats)?;
    if s.chance(50) {
        rights_twins(&p, stats)?;
    }
    // a look-alike right afterwards on the same generator: same side to move, same king squares,
    // same occupied squares — two men of the mover have exchanged their kinds (whatever the
    // generator remembers about the previous position must not leak into this one)
    if s.chance(40) {
        if let Some(q) = look_alike(&mut s, &p) {
            stats.class("look_alike_judged_right_after_its_original");
            let seq = |mut f: Failure| {
                f.detail["replay"] = json!({"sequence": [eng::fen(&p), eng::fen(&q), eng::fen(&p)]});
                f
            };
            let r = judge_api(&q, stats).map_err(seq);
            // and the original once more
            return r.and_then(|_| judge_api(&p, stats).map_err(seq));
        }
    }
    Ok(())
}

/// `p` with the kinds of two men of the side to move exchanged (not kings; pawns stay off the
/// first and last ranks); None if that is not a valid position.
fn look_alike(s: &mut Src, p: &Pos) -> Option<Pos> {
    let mine: Vec<u8> = (0..64u8).filter(|q| matches!(p.sq[*q as usize], Some((c, k)) if c == p.stm && k != Kind::K)).collect();
    if mine.len() < 2 {
        return None;
    }
    for _ in 0..4 {
        let a = mine[s.below(mine.len())];
        let b = mine[s.below(mine.len())];
        let (ka, kb) = (p.sq[a as usize].unwrap().1, p.sq[b as usize].unwrap().1);
        if a == b || ka == kb {
            continue;
        }
        let on_edge = |q: u8| q < 8 || q >= 56;
        if (ka == Kind::P && on_edge(b)) || (kb == Kind::P && on_edge(a)) {
            continue;
        }
        let mut q = p.clone();
        q.sq[a as usize] = Some((p.stm, kb));
        q.sq[b as usize] = Some((p.stm, ka));
        q.ep = None;
        // rook/king homes may have changed: keep only rights that are still consistent
        crate::gen::repair(&mut q);
        if q.is_valid() && !q.in_check() && q.stm == p.stm {
            return Some(q);
        }
    }
    None
}

fn judge_api(p: &Pos, stats: &mut Stats) -> Verdict {
    let p = p.clone();
    if p.in_check() {
        stats.exclude("mover in check: no public entry point (covered by the recorded in-search lists)");
        return Ok(());
    }
    let g = eng::mg();
    let b = guarded("Board::new", || eng::to_board(&p))?;
    let mut got: Vec<String> = guarded("generate_quiescence_moves", || g.generate_quiescence_moves(&b))?.iter().map(|m| m.to_algebraic()).collect();
    stats.eval();
    compare_lists(&p, &mut got, "generate_quiescence_moves")?;
    if classify(&p, stats) {
        stats.nontrivial(&p.fen4());
    }
    stats.sample(|| json!({"fen": eng::fen(&p), "tactical_moves": got}));
    Ok(())
}

fn part_recorded(bytes: &[u8], stats: &mut Stats) -> Verdict {
    let mut s = Src::new(bytes);
    let p = if s.chance(70) { gen::g_small(&mut s).0 } else { gen::g_mix(&mut s).0 };
    let d = 1 + s.below(2) as u8;
    judge_recorded(&p, d, 30_000, stats)
}

fn judge_recorded(p: &Pos, d: u8, cap: u64, stats: &mut Stats) -> Verdict {
    let p = p.clone();
    let b = eng::to_board(&p);
    let mut searcher = Searcher::new();
    searcher.verif.record_qmoves = true;
    searcher.verif_set_hard_cap(Some(cap));
    let r = std::panic::catch_unwind(std::panic::AssertUnwindSafe(|| searcher.find_best_move(&b, d, None)));
    if let Err(pn) = &r {
        let msg = crate::panic_text(pn);
        if !msg.contains("node hard cap") {
            return Err(Failure::new("search-panic", json!({"fen": eng::fen(&p), "depth": d, "panic": msg})));
        }
        stats.class("search_cut_by_watchdog_(recorded_nodes_still_judged)");
    }
    let recs = std::mem::take(&mut searcher.verif.qmoves);
    stats.class("recorded_searches");
    let mut seen: std::collections::HashMap<Pos, Vec<String>> = std::collections::HashMap::new();
    for (board, in_check_flag, moves, _qply) in recs.iter() {
        let q = eng::board_to_pos(board);
        let mut listed: Vec<String> = moves.iter().map(|m| m.to_algebraic()).collect();
        listed.sort();
        if let Some(first) = seen.get(&q) {
            // the same node visited again in the same search: the list is a function of the position
            if *first != listed {
                return Err(Failure::new("list-differs-between-visits-of-one-position", json!({"root": eng::fen(&p), "depth": d, "node": eng::fen(&q), "first_visit": first, "later_visit": listed})));
            }
            continue;
        }
        seen.insert(q.clone(), listed);
        stats.eval();
        if *in_check_flag != q.in_check() {
            return Err(Failure::new("in-check-flag-wrong", json!({"root": eng::fen(&p), "node": eng::fen(&q), "engine_flag": in_check_flag, "reference": q.in_check()})));
        }
        let mut got: Vec<String> = moves.iter().map(|m| m.to_algebraic()).collect();
        if let Err(mut f) = compare_lists(&q, &mut got, "recorded in search_until_quiet") {
            f.detail["root"] = json!(eng::fen(&p));
            f.detail["depth"] = json!(d);
            return Err(f);
        }
        if q.in_check() {
            stats.class("recorded_nodes_in_check");
            stats.nontrivial(&q.fen4());
        } else if classify(&q, stats) {
            stats.nontrivial(&q.fen4());
        }
    }
    stats.sample(|| json!({"root": eng::fen(&p), "depth": d, "quiescence_nodes_recorded": recs.len(), "distinct_positions": seen.len()}));
    Ok(())
}

thread_local! {
    static DEEP_CAP: std::cell::Cell<u64> = std::cell::Cell::new(400_000);
}
pub const DEEP_MIN_QPLY: u32 = 10;

/// Deep quiescence lines: full middlegame positions searched to depth 1..4 (or the quiescence
/// search called directly with a generated window), recording only the nodes that lie at least
/// DEEP_MIN_QPLY plies below the horizon.  "Beyond its nominal depth" has no bound in the
/// statement, so the move set must be the same however deep below the horizon a node lies.
fn part_deep(bytes: &[u8], stats: &mut Stats) -> Verdict {
    let mut s = Src::new(bytes);
    let p = match s.weighted(&[50, 30, 20]) {
        0 => gen::g_play(&mut s),
        1 => gen::g_mix(&mut s).0,
        _ => gen::pool_pos(s.below(gen::POOL.len())),
    };
    if p.legal_moves().is_empty() {
        stats.exclude("terminal root");
        return Ok(());
    }
    let b = eng::to_board(&p);
    let mut searcher = Searcher::new();
    // one case in ten: an engine that has already searched a lot (several million nodes over
    // earlier searches of neighbouring positions) before the recorded search — "the moves the
    // engine keeps examining" must not depend on how much it has examined before
    if s.chance(10) {
        let mut total = 0u64;
        let mut q = p.clone();
        for _ in 0..8 {
            if total >= 2_600_000 {
                break;
            }
            searcher.verif_set_hard_cap(Some(900_000));
            let bq = eng::to_board(&q);
            let d = 2 + s.below(3) as u8;
            let _ = std::panic::catch_unwind(std::panic::AssertUnwindSafe(|| searcher.find_best_move(&bq, d, None)));
            total += searcher.verif_nodes();
            let legal = q.legal_moves();
            if let Some(m) = gen::choose_move(&mut s, &q, &legal) {
                if !q.make(m).legal_moves().is_empty() {
                    q = q.make(m);
                }
            }
        }
        stats.class("deep_searches_on_an_engine_with_millions_of_earlier_nodes");
        stats.maximum("earlier_nodes_on_the_same_engine", total as i64);
    }
    searcher.verif.record_qmoves = true;
    searcher.verif.record_min_qply = if searcher.verif_nodes() > 0 { 1 } else { DEEP_MIN_QPLY };
    searcher.verif_set_hard_cap(Some(DEEP_CAP.with(|c| c.get())));
    let direct = s.chance(35);
    let (how, r) = if direct {
        // window around the static value: both sides keep looking for improvements
        let ev = flsrc::eval::Evaluator::new().evaluate(&b);
        let lo = ev - *s.pick(&[0i32, 30, 120, 400, 900, 32767]);
        let hi = ev + *s.pick(&[1i32, 30, 120, 400, 900, 32767]);
        let (lo, hi) = (lo.max(-32767), hi.min(32767));
        (format!("verif_quiesce window ({}, {})", lo, hi), std::panic::catch_unwind(std::panic::AssertUnwindSafe(|| { searcher.verif_quiesce(&b, lo, hi); })))
    } else {
        let d = 1 + s.below(4) as u8;
        (format!("find_best_move depth {}", d), std::panic::catch_unwind(std::panic::AssertUnwindSafe(|| { searcher.find_best_move(&b, d, None); })))
    };
    if let Err(pn) = &r {
        let msg = crate::panic_text(pn);
        if !msg.contains("node hard cap") {
            return Err(Failure::new("search-panic", json!({"fen": eng::fen(&p), "how": how, "panic": msg})));
        }
        stats.class("deep_search_cut_by_watchdog_(recorded_nodes_still_judged)");
    }
    let recs = std::mem::take(&mut searcher.verif.qmoves);
    let maxq = searcher.verif.max_qply.get();
    stats.maximum("max_plies_below_horizon_reached", maxq as i64);
    stats.class("deep_searches");
    if maxq >= 32 {
        stats.class("deep_searches_reaching_32_plies_below_horizon");
    }
    let mut seen: std::collections::HashMap<(Pos, bool), Vec<String>> = std::collections::HashMap::new();
    for (board, in_check_flag, moves, qply) in recs.iter() {
        let q = eng::board_to_pos(board);
        let mut listed: Vec<String> = moves.iter().map(|m| m.to_algebraic()).collect();
        listed.sort();
        if let Some(first) = seen.get(&(q.clone(), *qply >= 32)) {
            if *first != listed {
                return Err(Failure::new("list-differs-between-visits-of-one-position", json!({"root": eng::fen(&p), "how": how, "node": eng::fen(&q), "first_visit": first, "later_visit": listed, "plies_below_horizon": qply})));
            }
            continue;
        }
        seen.insert((q.clone(), *qply >= 32), listed);
        stats.eval();
        stats.class(match *qply {
            0..=15 => "deep_nodes_up_to_15_plies_below_horizon",
            16..=23 => "deep_nodes_16_23_plies_below_horizon",
            24..=31 => "deep_nodes_24_31_plies_below_horizon",
            _ => "deep_nodes_32_or_more_plies_below_horizon",
        });
        if *in_check_flag != q.in_check() {
            return Err(Failure::new("in-check-flag-wrong", json!({"root": eng::fen(&p), "node": eng::fen(&q), "engine_flag": in_check_flag, "reference": q.in_check()})));
        }
        let mut got: Vec<String> = moves.iter().map(|m| m.to_algebraic()).collect();
        if let Err(mut f) = compare_lists(&q, &mut got, "recorded in search_until_quiet") {
            f.detail["root"] = json!(eng::fen(&p));
            f.detail["how"] = json!(how);
            f.detail["plies_below_horizon"] = json!(qply);
            return Err(f);
        }
        if q.in_check() || classify(&q, stats) {
            stats.nontrivial(&(q.fen4(), *qply));
        }
    }
    stats.sample(|| json!({"root": eng::fen(&p), "how": how, "deepest_plies_below_horizon": maxq, "deep_nodes_recorded": recs.len()}));
    Ok(())
}

pub fn fuzz_entry(bytes: &[u8]) -> Verdict {
    let mut st = Stats::new();
    part_api(bytes, &mut st)
}

pub fn run(tier: Tier, seed: u64, known: &Known) -> PropRun {
    let mut run = PropRun::new("exploration", RULE);
    run.assumptions = vec![
        "the hook records the move list search_until_quiet has chosen (before ordering), together with the engine's own in-check flag".into(),
        "reference rules perft-validated; 'gives check' = opponent's king attacked after the move (direct, discovered, by castling rook, by promotion piece)".into(),
    ];
    let cap = tier.pick(400_000u64, 6_000_000u64);
    fn part_deep_q(b: &[u8], st: &mut Stats) -> Verdict {
        DEEP_CAP.with(|c| c.set(400_000));
        part_deep(b, st)
    }
    fn part_deep_t(b: &[u8], st: &mut Stats) -> Verdict {
        DEEP_CAP.with(|c| c.set(6_000_000));
        part_deep(b, st)
    }
    run.extra.insert("deep_part_node_cap".into(), json!(cap));
    let parts: [(&str, u64, usize, fn(&[u8], &mut Stats) -> Verdict); 3] = [
        ("api", tier.pick(250_000, 3_000_000), 200, part_api),
        ("recorded", tier.pick(1_500, 60_000), 400, part_recorded),
        ("deep", tier.pick(320, 4_000), 700, if tier == Tier::Quick { part_deep_q } else { part_deep_t }),
    ];
    // part 'geometry' first: the enumerated check-geometry grid (see grid.rs) through the public API
    let items = crate::grid::items();
    run.stats.class_n("geometry_grid_items_enumerated", items.len() as u64);
    let (st, fail) = crate::runner::run_enumerated("geometry", &items, threads(), seed, known, |it, st| judge_grid(it, st));
    run.stats.merge(st);
    if fail.is_some() {
        run.failure = fail;
        return run;
    }
    for (name, cases, max_len, f) in parts {
        let part = Part { name, cases, min_len: 8, max_len, max_shrink: 2000, threads: threads() };
        let (st, fail) = run_part(&part, seed, known, f);
        run.stats.merge(st);
        if fail.is_some() {
            run.failure = fail;
            break;
        }
    }
    run
}

/// One item of the enumerated check-geometry grid, with and without a man of the other side added.
fn judge_grid(it: &crate::grid::GridItem, stats: &mut Stats) -> Verdict {
    let Some(p) = crate::grid::build(it) else {
        stats.exclude("grid combination that is not a valid position");
        return Ok(());
    };
    stats.class(crate::grid::describe(it));
    eng::set_counter_wish(0, 1);
    // consecutive grid items are often occupancy twins (the same squares, another kind of blocker):
    // a failing answer may depend on what this worker's generator was asked just before, so the
    // previous position goes into the replay file with it
    thread_local! { static PREV: std::cell::RefCell<Option<String>> = std::cell::RefCell::new(None); }
    let prev = PREV.with(|c| c.borrow().clone());
    PREV.with(|c| *c.borrow_mut() = Some(eng::fen(&p)));
    judge_api(&p, stats).map_err(|mut f| {
        if let Some(pf) = &prev {
            f.detail["asked_just_before_on_the_same_generator"] = json!(pf);
            f.detail["replay"] = json!({"sequence": [pf, eng::fen(&p)]});
        }
        f
    })?;
    rights_twins(&p, stats)?;
    if let Some(q) = crate::grid::with_defender(it, &p) {
        judge_api(&q, stats)?;
    }
    Ok(())
}

/// The same placement with other castling rights (every proper subset of the rights `p` has is a
/// valid position too), asked on the same generator right after `p`, and `p` once more: what the
/// generator has just answered for a position that LOOKS the same must not leak.
fn rights_twins(p: &Pos, stats: &mut Stats) -> Verdict {
    if !p.castle.iter().any(|c| *c) {
        return Ok(());
    }
    let held: Vec<usize> = (0..4).filter(|i| p.castle[*i]).collect();
    for mask in 0..(1u32 << held.len()) - 1 {
        let mut q = p.clone();
        for (j, i) in held.iter().enumerate() {
            q.castle[*i] = mask & (1 << j) != 0;
        }
        if !q.is_valid() {
            continue;
        }
        stats.class("same_placement_other_castling_rights_judged_on_the_same_generator");
        let seq = |mut f: Failure| {
            // the failing answer may depend on what the generator was asked just before
            f.detail["replay"] = json!({"sequence": [eng::fen(p), eng::fen(&q), eng::fen(p)]});
            f
        };
        judge_api(&q, stats).map_err(seq)?;
        judge_api(p, stats).map_err(seq)?;
    }
    Ok(())
}

pub fn replay(part: &str, bytes: &[u8], case: &Value, stats: &mut Stats) -> Verdict {
    // structural replay: the node itself through the public API (when its mover is not in check),
    // and the recorded search from its root
    if let Some(sq) = case.get("replay").and_then(|r| r.get("sequence")).and_then(|x| x.as_array()) {
        // positions asked one after the other on the same generator
        for f in sq.iter().filter_map(|x| x.as_str()) {
            if let Some(p) = eng::pos_from_saved_fen(f) {
                if !p.in_check() {
                    judge_api(&p, stats)?;
                }
            }
        }
        return Ok(());
    }
    if part != "deep" {
        if let (Some(root), Some(d)) = (case.get("root").and_then(|x| x.as_str()), case.get("depth").and_then(|x| x.as_u64())) {
            if let Some(p) = eng::pos_from_saved_fen(root) {
                return judge_recorded(&p, d as u8, 3_000_000, stats);
            }
        }
        if let Some(fen) = case.get("fen").and_then(|x| x.as_str()) {
            if let Some(p) = eng::pos_from_saved_fen(fen) {
                if !p.in_check() {
                    return judge_api(&p, stats);
                }
            }
        }
    }
    match part {
        "recorded" => part_recorded(bytes, stats),
        "deep" => {
            // replays run in every tier: a cap that keeps them to seconds (the saved cases were found
            // under the quick tier's cap of 400 000 nodes)
            let cap = std::env::var("VERIF_DEEP_REPLAY_CAP").ok().and_then(|x| x.parse().ok()).unwrap_or(1_200_000u64);
            DEEP_CAP.with(|c| c.set(cap));
            part_deep(bytes, stats)
        }
        _ => part_api(bytes, stats),
    }
}
