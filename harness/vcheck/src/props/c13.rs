//! C13 — same commands give the same answers; ucinewgame forgets everything (black-box).

use crate::blackbox::{normalise, Proc};
use crate::gen;
use crate::props::c04::gen_position_cmd;
use crate::props::threads;
use crate::runner::{run_part, Failure, Known, Part, Verdict};
use crate::script;
use crate::src::Src;
use crate::stats::Stats;
use crate::{PropRun, Tier};
use refchess::Pos;
use serde_json::{json, Value};
use std::cell::Cell;
use std::time::Duration;

pub const RULE: &str = "command scripts restricted to depth-limited searches: 1..6 rounds of 'position ...' / 'go depth d' (d in 1..4, pre-screened in-process under a node cap), interleaved with isready, positions from the small-position mixture incl. consecutive positions of one game (so the table, killers and history carry over and matter), optionally ucinewgame at generated points. Oracle 1 (run-to-run differential): the same script in R separate processes (each draws its own Zobrist keys and HashMap seeds; R = 3 quick / 8 thorough) gives byte-identical stdout after deleting the 'time' and 'nps' fields of info lines (depth, score, nodes, pv, bestmove and line order stay). Oracle 2 (fresh-equivalence, metamorphic): for prefix · ucinewgame · suffix the output after ucinewgame equals the output of suffix alone in a new process. Large searches: a few scripts from the start position (0..3 opening plies) searched to depth 6..8 (sized from a depth-5 probe to a few million nodes, i.e. hundreds of thousands of table entries), optionally followed by a second search two plies on, R concurrent runs. New-game generator: sometimes the old game is only set up by position commands and never searched; the new game revisits a position of the old one (same or one ply deeper search), or the old game is a knight-shuffle game from the start position (positions next to the start position occur 2-3 times) and the new game begins with a bare 'go depth d' on the start position ucinewgame sets up. Engine-played games (parts 'games', 'newgame-games'): the script a GUI would have sent while the engine played a game against itself on one engine (position restated + go depth 1..4 per ply, 3..14 plies, from endings with a decisive advantage and small positions: forced mates, mate scores in the table, terminal positions), judged by oracle 1, and by oracle 2 with that game as the old game and the same game (or its tail) as the new one. Non-trivial = >=2 searches of which a later one follows an earlier one in the same game (oracle 1) / prefix contains >=1 search (oracle 2); distinct by script text.";

thread_local! {
    static RUNS: Cell<usize> = Cell::new(3);
}

struct Round {
    lines: Vec<String>,
    same_game_as_previous: bool,
    /// the position searched in this round (None: whatever the engine holds)
    pos: Option<Pos>,
}

fn gen_rounds(s: &mut Src, n: usize) -> Vec<Round> {
    let mut rounds = Vec::new();
    let mut base: Option<(String, Pos, bool)> = None; // command text, current position, has "moves"
    for _ in 0..n {
        let d = 1 + s.below(4) as u8;
        let mut lines = Vec::new();
        let mut same = false;
        let mut reuse = None;
        if let Some((text, pos, has_moves)) = &base {
            if s.chance(60) {
                // continue the same game by 1..2 plies
                let mut t = text.clone();
                let mut p = pos.clone();
                let mut hm = *has_moves;
                let k = 1 + s.below(2);
                let mut ok = true;
                for _ in 0..k {
                    let legal = p.legal_moves();
                    let Some(m) = gen::choose_move(s, &p, &legal) else {
                        ok = false;
                        break;
                    };
                    if !hm {
                        t.push_str(" moves");
                        hm = true;
                    }
                    t.push(' ');
                    t.push_str(&m.uci());
                    p = p.make(m);
                }
                if ok && !p.legal_moves().is_empty() && script::cheap_search(&p, d, 150_000) {
                    reuse = Some((t, p, hm));
                }
            }
        }
        let (text, pos, hm) = match reuse {
            Some(x) => {
                same = true;
                x
            }
            None => {
                let mut found = None;
                for _ in 0..4 {
                    let c = gen_position_cmd(s, 24, true);
                    if !c.expected.legal_moves().is_empty() && script::cheap_search(&c.expected, d, 150_000) {
                        let hm = c.text.split_whitespace().any(|t| t == "moves");
                        found = Some((c.text, c.expected, hm));
                        break;
                    }
                }
                found.unwrap_or_else(|| ("position startpos".to_string(), Pos::startpos(), false))
            }
        };
        lines.push(text.clone());
        if s.chance(25) {
            lines.push("isready".into());
        }
        lines.push(format!("go depth {}", d));
        base = Some((text, pos.clone(), hm));
        rounds.push(Round { lines, same_game_as_previous: same, pos: Some(pos) });
    }
    rounds
}

fn run_script(lines: &[String]) -> Result<Vec<String>, Failure> {
    run_script_t(lines, Duration::from_secs(60))
}

fn run_script_t(lines: &[String], watchdog: Duration) -> Result<Vec<String>, Failure> {
    let mut p = Proc::spawn().map_err(|e| Failure::new("harness-no-engine", json!({"error": e})))?;
    for l in lines {
        p.send(l);
    }
    p.send("isready");
    // the final barrier is the LAST readyok: count expected readyoks
    let expected_ready = lines.iter().filter(|l| l.trim() == "isready").count() + 1;
    let mut out = Vec::new();
    let mut seen = 0;
    while seen < expected_ready {
        match p.read_until_or_idle("readyok", watchdog, Duration::from_secs(5)) {
            Ok(ls) => {
                out.extend(ls.iter().map(|l| normalise(l)));
                out.push("readyok".into());
                seen += 1;
            }
            Err(_) => {
                return Err(Failure::new("harness-timeout-or-exit", json!({"script": lines, "stdout": p.transcript})));
            }
        }
    }
    p.send("quit");
    Ok(out)
}

/// Oracle 1: the script in `runs` separate processes (run concurrently), normalised output identical.
fn compare_runs(lines: &[String], runs: usize, watchdog: Duration, stats: &mut Stats) -> Result<Vec<String>, Failure> {
    let outs: Vec<Result<Vec<String>, Failure>> = std::thread::scope(|sc| {
        let hs: Vec<_> = (0..runs.max(1)).map(|_| sc.spawn(|| run_script_t(lines, watchdog))).collect();
        hs.into_iter().map(|h| h.join().unwrap_or_else(|_| Err(Failure::new("harness-panic", json!({}))))).collect()
    });
    let mut it = outs.into_iter();
    let first = it.next().unwrap()?;
    stats.eval();
    for (r, o) in it.enumerate() {
        let other = o?;
        stats.eval();
        if other != first {
            let idx = first.iter().zip(other.iter()).position(|(a, b)| a != b).unwrap_or(first.len().min(other.len()));
            return Err(Failure::new(
                "output-differs-between-process-runs",
                json!({"script": lines, "run": r + 1, "first_difference_at_line": idx, "run0": first.get(idx), "other": other.get(idx), "run0_output": first, "other_output": other}),
            ));
        }
    }
    Ok(first)
}

fn part_runs(bytes: &[u8], stats: &mut Stats) -> Verdict {
    let mut s = Src::new(bytes);
    let n = 1 + s.below(6);
    let rounds = gen_rounds(&mut s, n);
    let mut lines: Vec<String> = Vec::new();
    for (i, r) in rounds.iter().enumerate() {
        if i > 0 && s.chance(10) {
            lines.push("ucinewgame".into());
        }
        lines.extend(r.lines.iter().cloned());
    }
    let runs = RUNS.with(|c| c.get());
    let first = compare_runs(&lines, runs, Duration::from_secs(60), stats)?;
    let carried = rounds.iter().skip(1).any(|r| r.same_game_as_previous);
    if rounds.len() >= 2 {
        stats.class("scripts_with_two_or_more_searches");
    }
    if carried {
        stats.class("later_search_continues_the_same_game");
        stats.nontrivial(&lines);
    }
    stats.sample(|| json!({"oracle": "run-to-run", "script": lines, "normalised_output_lines": first.len(), "last_lines": first.iter().rev().take(3).rev().collect::<Vec<_>>()}));
    Ok(())
}

/// A game from the start position in which both sides shuffle a knight out and back: the start
/// position and its neighbours occur two or three times.  (State such a game leaves behind — the
/// recorded history — is observable from the start position that ucinewgame sets up.)
fn shuffle_game(s: &mut Src) -> String {
    let a = *s.pick(&[("g1f3", "f3g1"), ("g1h3", "h3g1"), ("b1c3", "c3b1"), ("b1a3", "a3b1")]);
    let b = *s.pick(&[("g8f6", "f6g8"), ("g8h6", "h6g8"), ("b8c6", "c6b8"), ("b8a6", "a6b8")]);
    let cycles = 1 + s.below(3);
    let mut mv: Vec<&str> = Vec::new();
    for _ in 0..cycles {
        mv.extend([a.0, b.0, a.1, b.1]);
    }
    let partial = s.below(4);
    mv.extend([a.0, b.0, a.1].iter().take(partial));
    format!("position startpos moves {}", mv.join(" "))
}

/// Oracle 2: prefix, ucinewgame, suffix in one process; suffix alone in a fresh one.
fn compare_newgame(prefix: &[String], suffix: &[String], newgames: usize, stats: &mut Stats) -> Verdict {
    let (prefix, suffix) = (prefix.to_vec(), suffix.to_vec());
    // process 1: prefix, barrier, ucinewgame, suffix
    let mut p = Proc::spawn().map_err(|e| Failure::new("harness-no-engine", json!({"error": e})))?;
    for l in &prefix {
        p.send(l);
    }
    p.send("isready");
    let n_ready = prefix.iter().filter(|l| l.trim() == "isready").count() + 1;
    for _ in 0..n_ready {
        if p.read_until_or_idle("readyok", Duration::from_secs(60), Duration::from_secs(5)).is_err() {
            return Err(Failure::new("harness-timeout-or-exit", json!({"script": prefix, "stdout": p.transcript})));
        }
    }
    // ucinewgame, `newgames` times in a row (a GUI starting game after game; any count must do)
    for _ in 0..newgames.max(1) {
        p.send("ucinewgame");
    }
    for l in &suffix {
        p.send(l);
    }
    p.send("isready");
    let n_ready2 = suffix.iter().filter(|l| l.trim() == "isready").count() + 1;
    let mut after: Vec<String> = Vec::new();
    for _ in 0..n_ready2 {
        match p.read_until_or_idle("readyok", Duration::from_secs(60), Duration::from_secs(5)) {
            Ok(ls) => {
                after.extend(ls.iter().map(|l| normalise(l)));
                after.push("readyok".into());
            }
            Err(_) => return Err(Failure::new("harness-timeout-or-exit", json!({"prefix": prefix, "suffix": suffix, "stdout": p.transcript}))),
        }
    }
    p.send("quit");
    stats.eval();
    // process 2: suffix alone
    let fresh = run_script(&suffix)?;
    stats.eval();
    if fresh != after {
        let idx = fresh.iter().zip(after.iter()).position(|(a, b)| a != b).unwrap_or(fresh.len().min(after.len()));
        return Err(Failure::new(
            "ucinewgame-not-like-fresh-process",
            json!({"prefix": prefix, "suffix": suffix, "ucinewgame_count": newgames.max(1), "first_difference_at_line": idx, "after_ucinewgame": after.get(idx), "fresh_process": fresh.get(idx), "after_ucinewgame_output": after, "fresh_output": fresh}),
        ));
    }
    Ok(())
}

fn part_newgame(bytes: &[u8], stats: &mut Stats) -> Verdict {
    let mut s = Src::new(bytes);
    // how many ucinewgame in a row: mostly one; sometimes counts around the powers of two at
    // which a small counter wraps (then the new game revisits the old one: that is where a
    // half-forgotten table would show)
    let newgames = if s.chance(15) { *s.pick(&[2usize, 3, 16, 255, 256, 257, 512]) } else { 1 };
    let mode = if newgames >= 255 { 1 } else { s.weighted(&[35, 40, 25]) };
    let np = if mode == 0 { s.below(4) } else { 1 + s.below(3) };
    let mut prefix_rounds = gen_rounds(&mut s, np);
    if mode == 2 {
        // a shuffle game from the start position is part of the prefix
        let d = 1 + s.below(3);
        let at = s.below(prefix_rounds.len() + 1);
        prefix_rounds.insert(at, Round { lines: vec![shuffle_game(&mut s), format!("go depth {}", d)], same_game_as_previous: false, pos: None });
    }
    let ns = 1 + s.below(3);
    let mut suffix_rounds = gen_rounds(&mut s, ns);
    let mut prefix: Vec<String> = prefix_rounds.iter().flat_map(|r| r.lines.iter().cloned()).collect();
    // sometimes the old game was only set up, never searched (a GUI loading a game and starting a
    // new one): position commands leave state behind too
    let unsearched_prefix = if mode == 2 { s.chance(40) } else { s.chance(8) };
    if unsearched_prefix {
        prefix.retain(|l| !l.starts_with("go"));
    }
    let mut related = false;
    if mode == 1 {
        // the new game revisits a position of the old one (same command, possibly a deeper go):
        // whatever the old game left in the table, the killers or the history counters is then
        // consulted by the new game's search
        let r = &prefix_rounds[s.below(prefix_rounds.len())];
        let pos_line = r.lines.iter().find(|l| l.starts_with("position")).cloned();
        let go_line = r.lines.iter().find(|l| l.starts_with("go")).cloned();
        if let (Some(pl), Some(gl)) = (pos_line, go_line) {
            let d0: u8 = gl.rsplit(' ').next().and_then(|x| x.parse().ok()).unwrap_or(1);
            // same depth or one deeper (one deeper only where the pre-screen of the generator allows: depth <= 3)
            let d = if d0 <= 2 && s.chance(50) { d0 + 1 } else { d0 };
            let ok = if d == d0 {
                true
            } else {
                // pre-screen the deeper search
                r.pos.as_ref().map_or(false, |q| script::cheap_search(q, d, 150_000))
            };
            if ok {
                suffix_rounds.insert(0, Round { lines: vec![pl, format!("go depth {}", d)], same_game_as_previous: false, pos: r.pos.clone() });
                related = true;
            }
        }
    }
    let mut shuffle_again = false;
    if mode == 2 && s.chance(55) {
        // the new game is the old shuffle game again, word for word or extended by a cycle move: a
        // history with repeated positions given a second time, after ucinewgame
        if let Some(r) = prefix_rounds.iter().find(|r| r.pos.is_none()) {
            if let Some(pl) = r.lines.iter().find(|l| l.starts_with("position")) {
                let mut pl = pl.clone();
                if s.chance(40) {
                    // continue the shuffle by the move that undoes the last one of the same side
                    let toks: Vec<&str> = pl.split_whitespace().collect();
                    if toks.len() >= 6 {
                        let m = toks[toks.len() - 2];
                        if m.len() == 4 {
                            let back = format!("{}{}", &m[2..4], &m[0..2]);
                            pl = format!("{} {}", pl, back);
                        }
                    }
                }
                if script::ref_position(&pl).is_ok() {
                    suffix_rounds.insert(0, Round { lines: vec![pl, format!("go depth {}", 1 + s.below(4))], same_game_as_previous: false, pos: None });
                    shuffle_again = true;
                }
            }
        }
    }
    // sometimes the suffix starts with a go on whatever ucinewgame left (the start position)
    let mut suffix: Vec<String> = suffix_rounds.iter().flat_map(|r| r.lines.iter().cloned()).collect();
    let bare_go = if shuffle_again { s.chance(20) } else if mode == 2 { s.chance(85) } else { s.chance(15) };
    if bare_go {
        suffix.insert(0, format!("go depth {}", 1 + s.below(if mode == 2 { 4 } else { 3 })));
    }
    if newgames > 1 {
        stats.class("several_ucinewgame_in_a_row");
        if newgames >= 255 {
            stats.class("255_or_more_ucinewgame_in_a_row");
        }
    }
    compare_newgame(&prefix, &suffix, newgames, stats)?;
    let prefix_searches = prefix.iter().filter(|l| l.starts_with("go")).count();
    if prefix_searches >= 1 {
        stats.class("prefix_contains_a_search");
        stats.nontrivial(&(prefix.clone(), suffix.clone()));
    }
    if unsearched_prefix && prefix.iter().any(|l| l.starts_with("position")) {
        stats.class("old_game_was_set_up_but_never_searched");
        if mode == 2 {
            stats.nontrivial(&(prefix.clone(), suffix.clone()));
        }
    }
    if related {
        stats.class("new_game_revisits_a_position_of_the_old_game");
    }
    if mode == 2 {
        stats.class("old_game_repeats_positions_next_to_the_start_position");
    }
    if shuffle_again {
        stats.class("new_game_is_the_old_shuffle_game_again");
    }
    if bare_go {
        stats.class("go_right_after_ucinewgame_without_position");
    }
    stats.sample(|| json!({"oracle": "fresh-equivalence", "prefix": prefix, "suffix": suffix}));
    Ok(())
}

/// A game played out by the engine itself (in-process, one engine, node-capped): the script a GUI
/// would have sent — position (whole game restated) and `go depth d` for every ply, the answer
/// played.  From endings with a decisive advantage and small positions, so that forced mates, mate
/// scores in the table and terminal positions occur.  Returns the command lines and whether a
/// search reported a forced mate.
fn gen_engine_game(s: &mut Src, max_plies: usize) -> (Vec<String>, bool, usize) {
    use flsrc::uci::Flounder;
    let start = if s.chance(60) { crate::props::c03::g_decisive(s) } else { gen::g_small(s).0 };
    let base = format!("position fen {}", start.fen(0, 1));
    let mut fl = Flounder::new();
    let mut moves: Vec<String> = Vec::new();
    let mut cur = start.clone();
    let mut lines = Vec::new();
    let mut mate = false;
    let mut searches = 0;
    for _ in 0..max_plies {
        if cur.legal_moves().is_empty() {
            break;
        }
        let d = 1 + s.weighted(&[20, 30, 30, 20]) as u8;
        let mut cmd = base.clone();
        if !moves.is_empty() {
            cmd.push_str(" moves ");
            cmd.push_str(&moves.join(" "));
        }
        let r = std::panic::catch_unwind(std::panic::AssertUnwindSafe(|| {
            fl.verif_handle_command(&cmd);
            fl.verif_searcher().verif_set_hard_cap(Some(150_000));
            let _ = fl.verif_take_bestmove_lines();
            fl.verif_handle_command(&format!("go depth {}", d));
            let best = fl.verif_take_bestmove_lines();
            let score = fl.verif_searcher().verif_timer().verif.infos.borrow().last().map(|i| i.1);
            (best, score)
        }));
        let Ok((best, score)) = r else { break };
        lines.push(cmd);
        lines.push(format!("go depth {}", d));
        searches += 1;
        if score.map(|x| x.abs() >= 32767).unwrap_or(false) {
            mate = true;
        }
        let Some(mv) = best.first().and_then(|l| l.split_whitespace().nth(1)).map(|x| x.to_string()) else { break };
        // mostly the answer, sometimes another legal move
        let m = if s.chance(85) { cur.find_uci(&mv) } else { gen::choose_move(s, &cur, &cur.legal_moves()) };
        let Some(m) = m else { break };
        moves.push(m.uci());
        cur = cur.make(m);
    }
    (lines, mate, searches)
}

/// Oracle 1 on engine-played games.
fn part_games(bytes: &[u8], stats: &mut Stats) -> Verdict {
    let mut s = Src::new(bytes);
    let n = 3 + s.below(12);
    let (mut lines, mate, searches) = gen_engine_game(&mut s, n);
    if searches == 0 {
        stats.exclude("no search in the generated game");
        return Ok(());
    }
    // now and then an isready in between
    if s.chance(30) {
        let at = s.below(lines.len() + 1);
        lines.insert(at, "isready".into());
    }
    let runs = RUNS.with(|c| c.get());
    let first = compare_runs(&lines, runs, Duration::from_secs(60), stats)?;
    stats.class("engine_played_games");
    if mate {
        stats.class("engine_played_games_with_a_forced_mate_reported");
    }
    if searches >= 3 {
        stats.nontrivial(&lines);
    }
    stats.sample(|| json!({"oracle": "run-to-run (engine-played game)", "script": lines, "normalised_output_lines": first.len()}));
    Ok(())
}

/// Oracle 2 with an engine-played game as the old game; the new game is that same game again (every
/// command of it, or its tail), so that everything the old game left behind would be consulted.
fn part_newgame_games(bytes: &[u8], stats: &mut Stats) -> Verdict {
    let mut s = Src::new(bytes);
    let n = 3 + s.below(10);
    let (prefix, mate, searches) = gen_engine_game(&mut s, n);
    if searches == 0 {
        stats.exclude("no search in the generated game");
        return Ok(());
    }
    let rounds = prefix.len() / 2;
    let from = if s.chance(40) { 0 } else { s.below(rounds) };
    let suffix: Vec<String> = prefix[2 * from..].to_vec();
    compare_newgame(&prefix, &suffix, 1, stats)?;
    stats.class("new_game_replays_an_engine_played_old_game");
    if mate {
        stats.class("old_engine_played_game_reported_a_forced_mate");
    }
    stats.nontrivial(&(prefix.clone(), from));
    stats.sample(|| json!({"oracle": "fresh-equivalence (engine-played game)", "prefix": prefix, "suffix": suffix}));
    Ok(())
}

/// Large searches (millions of nodes, hundreds of thousands of table entries): whatever depends on
/// how full the tables are (capacity limits, replacement, growth) only shows at this scale.
/// The runs of one script execute concurrently.
fn part_heavy(bytes: &[u8], stats: &mut Stats) -> Verdict {
    use flsrc::search::Searcher;
    let mut s = Src::new(bytes);
    let mut p = Pos::startpos();
    let mut text = String::from("position startpos");
    let plies = s.below(4);
    for i in 0..plies {
        let legal = p.legal_moves();
        let Some(m) = gen::choose_move(&mut s, &p, &legal) else { break };
        text.push_str(if i == 0 { " moves " } else { " " });
        text.push_str(&m.uci());
        p = p.make(m);
    }
    if p.legal_moves().is_empty() {
        stats.exclude("terminal root");
        return Ok(());
    }
    // size the search from a depth-5 probe: aim at a few million nodes
    let b = crate::eng::to_board(&p);
    let mut probe = Searcher::new();
    probe.verif_set_hard_cap(Some(3_000_000));
    if std::panic::catch_unwind(std::panic::AssertUnwindSafe(|| probe.find_best_move(&b, 5, None))).is_err() {
        stats.exclude("depth-5 probe over the node watchdog");
        return Ok(());
    }
    let n5 = probe.verif_nodes();
    let depth = if n5 < 40_000 { 8 } else if n5 < 250_000 { 7 } else { 6 };
    let mut lines = vec![text.clone(), format!("go depth {}", depth)];
    if s.chance(50) {
        // the game goes on: a second search on a full table
        let mut t = text.clone();
        let mut q = p.clone();
        let mut has_moves = plies > 0;
        for _ in 0..2 {
            let legal = q.legal_moves();
            let Some(m) = gen::choose_move(&mut s, &q, &legal) else { break };
            t.push_str(if has_moves { " " } else { " moves " });
            has_moves = true;
            t.push_str(&m.uci());
            q = q.make(m);
        }
        if !q.legal_moves().is_empty() {
            lines.push(t);
            lines.push(format!("go depth {}", depth - 2));
        }
    }
    let runs = RUNS.with(|c| c.get()).max(2);
    let first = compare_runs(&lines, runs, Duration::from_secs(900), stats)?;
    let nodes: u64 = first
        .iter()
        .filter(|l| l.starts_with("info "))
        .filter_map(|l| {
            let t: Vec<&str> = l.split_whitespace().collect();
            t.iter().position(|x| *x == "nodes").and_then(|i| t.get(i + 1)).and_then(|x| x.parse::<u64>().ok())
        })
        .max()
        .unwrap_or(0);
    stats.maximum("heavy_max_nodes_of_one_search", nodes as i64);
    stats.class("heavy_scripts");
    if nodes >= 1_000_000 {
        stats.class("heavy_scripts_with_a_search_over_1M_nodes");
        stats.nontrivial(&lines);
    }
    stats.sample(|| json!({"oracle": "run-to-run (large searches)", "script": lines, "largest_search_nodes": nodes, "runs": runs}));
    Ok(())
}

/// In-process amplifier (not the deciding oracle — the statement is about the complete output of
/// the process): the same sequence of depth-limited searches of one game on K searchers, each
/// with its own key draw, must give identical (score, move, node count) sequences.
fn part_inprocess(bytes: &[u8], stats: &mut Stats) -> Verdict {
    use flsrc::search::Searcher;
    let mut s = Src::new(bytes);
    let start = gen::g_small(&mut s).0;
    let n_searches = 2 + s.below(4);
    // the game: start, then 1..2 plies between searches
    let mut positions = vec![start.clone()];
    let mut p = start;
    for _ in 1..n_searches {
        for _ in 0..1 + s.below(2) {
            let legal = p.legal_moves();
            let Some(m) = gen::choose_move(&mut s, &p, &legal) else { break };
            p = p.make(m);
        }
        positions.push(p.clone());
    }
    let depths: Vec<u8> = positions.iter().map(|_| 1 + s.below(4) as u8).collect();
    const K: usize = 4;
    let mut outs: Vec<Vec<(i32, Option<String>, u64)>> = Vec::new();
    for _ in 0..K {
        let mut sr = Searcher::new();
        sr.verif_set_hard_cap(Some(400_000));
        let mut out = Vec::new();
        for (q, d) in positions.iter().zip(depths.iter()) {
            let b = crate::eng::to_board(q);
            let r = std::panic::catch_unwind(std::panic::AssertUnwindSafe(|| sr.find_best_move(&b, *d, None)));
            match r {
                Ok((score, mv)) => out.push((score, mv.map(|m| m.to_algebraic()), sr.verif_nodes())),
                Err(_) => {
                    stats.exclude("in-process search over the node watchdog");
                    return Ok(());
                }
            }
        }
        outs.push(out);
    }
    stats.evals(K as u64);
    for k in 1..K {
        if outs[k] != outs[0] {
            let idx = outs[0].iter().zip(outs[k].iter()).position(|(a, b)| a != b).unwrap_or(0);
            return Err(Failure::new(
                "search-depends-on-key-draw",
                json!({"game": positions.iter().map(|q| q.fen(0,1)).collect::<Vec<_>>(), "depths": depths, "first_difference_at_search": idx,
                       "searcher_0": format!("{:?}", outs[0].get(idx)), "other_searcher": format!("{:?}", outs[k].get(idx))}),
            ));
        }
    }
    stats.class("inprocess_games_on_4_key_draws");
    stats.nontrivial(&(positions[0].fen4(), depths.clone(), positions.len()));
    Ok(())
}

pub fn run(tier: Tier, seed: u64, known: &Known) -> PropRun {
    let mut run = PropRun::new("exploration", RULE);
    run.assumptions = vec![
        "'every key set' is sampled with R process runs per script: a dependence confined to a negligible fraction of key draws is out of reach".into(),
        "only the time and nps fields of info lines are removed before comparison".into(),
    ];
    if crate::blackbox::engine_path().is_none() {
        run.inconclusive = Some("engine binary not built".into());
        return run;
    }
    let runs = tier.pick(3usize, 8usize);
    run.extra.insert("process_runs_per_script".into(), json!(runs));
    let part = Part { name: "runs", cases: tier.pick(250, 6_000), min_len: 24, max_len: 900, max_shrink: 40, threads: threads() };
    let (st, fl) = run_part(&part, seed, known, |b, st| {
        RUNS.with(|c| c.set(runs));
        part_runs(b, st)
    });
    run.stats.merge(st);
    if fl.is_some() {
        run.failure = fl;
        return run;
    }
    let part = Part { name: "newgame", cases: tier.pick(150, 4_000), min_len: 24, max_len: 900, max_shrink: 40, threads: threads() };
    let (st, fl) = run_part(&part, seed, known, part_newgame);
    run.stats.merge(st);
    if fl.is_some() {
        run.failure = fl;
        return run;
    }
    let part = Part { name: "games", cases: tier.pick(200, 5_000), min_len: 24, max_len: 400, max_shrink: 40, threads: threads() };
    let (st, fl) = run_part(&part, seed, known, |b, st| {
        RUNS.with(|c| c.set(runs));
        part_games(b, st)
    });
    run.stats.merge(st);
    if fl.is_some() {
        run.failure = fl;
        return run;
    }
    let part = Part { name: "newgame-games", cases: tier.pick(150, 4_000), min_len: 24, max_len: 400, max_shrink: 40, threads: threads() };
    let (st, fl) = run_part(&part, seed, known, part_newgame_games);
    run.stats.merge(st);
    if fl.is_some() {
        run.failure = fl;
        return run;
    }
    // few, large searches; the runs of a script are concurrent, so few worker threads
    let part = Part { name: "heavy", cases: tier.pick(3, 48), min_len: 24, max_len: 200, max_shrink: 4, threads: tier.pick(3, 5) };
    let (st, fl) = run_part(&part, seed, known, |b, st| {
        RUNS.with(|c| c.set(runs.min(3)));
        part_heavy(b, st)
    });
    run.stats.merge(st);
    if fl.is_some() {
        run.failure = fl;
        return run;
    }
    let part = Part { name: "inprocess", cases: tier.pick(1_500, 60_000), min_len: 24, max_len: 400, max_shrink: 200, threads: threads() };
    let (st, fl) = run_part(&part, seed, known, part_inprocess);
    run.stats.merge(st);
    run.failure = fl;
    run
}

pub fn replay(part: &str, bytes: &[u8], case: &Value, stats: &mut Stats) -> Verdict {
    RUNS.with(|c| c.set(4));
    // structural replay: the saved script(s)
    let strs = |k: &str| -> Option<Vec<String>> { case.get(k)?.as_array().map(|a| a.iter().filter_map(|x| x.as_str().map(|s| s.to_string())).collect()) };
    if let (Some(prefix), Some(suffix)) = (strs("prefix"), strs("suffix")) {
        let k = case.get("ucinewgame_count").and_then(|x| x.as_u64()).unwrap_or(1) as usize;
        return compare_newgame(&prefix, &suffix, k, stats);
    }
    if let Some(script) = strs("script") {
        return compare_runs(&script, 4, Duration::from_secs(900), stats).map(|_| ());
    }
    match part {
        "newgame" => part_newgame(bytes, stats),
        "games" => part_games(bytes, stats),
        "newgame-games" => part_newgame_games(bytes, stats),
        "inprocess" => part_inprocess(bytes, stats),
        "heavy" => part_heavy(bytes, stats),
        _ => part_runs(bytes, stats),
    }
}
