//! C13 — same commands give the same answers; ucinewgame forgets everything (black-box).

use crate::blackbox::{normalise, Proc};
use crate::gen;
use crate::props::c04::gen_position_cmd;
use crate::props::threads;
use crate::runner::{run_part, Failure, Known, Part, Verdict};
use crate::script;
use crate::src::Src;
use crate::stats::Stats;
use crate::{PropRun, Tier};
use refchess::Pos;
use serde_json::{json, Value};
use std::cell::Cell;
use std::time::Duration;

pub const RULE: &str = "command scripts restricted to depth-limited searches: 1..6 rounds of 'position ...' / 'go depth d' (d in 1..4, pre-screened in-process under a node cap), interleaved with isready, positions from the small-position mixture incl. consecutive positions of one game (so the table, killers and history carry over and matter), optionally ucinewgame at generated points. Oracle 1 (run-to-run differential): the same script in R separate processes (each draws its own Zobrist keys and HashMap seeds; R = 3 quick / 8 thorough) gives byte-identical stdout after deleting the 'time' and 'nps' fields of info lines (depth, score, nodes, pv, bestmove and line order stay). Oracle 2 (fresh-equivalence, metamorphic): for prefix · ucinewgame · suffix the output after ucinewgame equals the output of suffix alone in a new process. Non-trivial = >=2 searches of which a later one follows an earlier one in the same game (oracle 1) / prefix contains >=1 search (oracle 2); distinct by script text.";

thread_local! {
    static RUNS: Cell<usize> = Cell::new(3);
}

struct Round {
    lines: Vec<String>,
    same_game_as_previous: bool,
}

fn gen_rounds(s: &mut Src, n: usize) -> Vec<Round> {
    let mut rounds = Vec::new();
    let mut base: Option<(String, Pos, bool)> = None; // command text, current position, has "moves"
    for _ in 0..n {
        let d = 1 + s.below(4) as u8;
        let mut lines = Vec::new();
        let mut same = false;
        let mut reuse = None;
        if let Some((text, pos, has_moves)) = &base {
            if s.chance(60) {
                // continue the same game by 1..2 plies
                let mut t = text.clone();
                let mut p = pos.clone();
                let mut hm = *has_moves;
                let k = 1 + s.below(2);
                let mut ok = true;
                for _ in 0..k {
                    let legal = p.legal_moves();
                    let Some(m) = gen::choose_move(s, &p, &legal) else {
                        ok = false;
                        break;
                    };
                    if !hm {
                        t.push_str(" moves");
                        hm = true;
                    }
                    t.push(' ');
                    t.push_str(&m.uci());
                    p = p.make(m);
                }
                if ok && !p.legal_moves().is_empty() && script::cheap_search(&p, d, 150_000) {
                    reuse = Some((t, p, hm));
                }
            }
        }
        let (text, pos, hm) = match reuse {
            Some(x) => {
                same = true;
                x
            }
            None => {
                let mut found = None;
                for _ in 0..4 {
                    let c = gen_position_cmd(s, 24, true);
                    if !c.expected.legal_moves().is_empty() && script::cheap_search(&c.expected, d, 150_000) {
                        let hm = c.text.split_whitespace().any(|t| t == "moves");
                        found = Some((c.text, c.expected, hm));
                        break;
                    }
                }
                found.unwrap_or_else(|| ("position startpos".to_string(), Pos::startpos(), false))
            }
        };
        lines.push(text.clone());
        if s.chance(25) {
            lines.push("isready".into());
        }
        lines.push(format!("go depth {}", d));
        base = Some((text, pos, hm));
        rounds.push(Round { lines, same_game_as_previous: same });
    }
    rounds
}

fn run_script(lines: &[String]) -> Result<Vec<String>, Failure> {
    let mut p = Proc::spawn().map_err(|e| Failure::new("harness-no-engine", json!({"error": e})))?;
    for l in lines {
        p.send(l);
    }
    p.send("isready");
    // the final barrier is the LAST readyok: count expected readyoks
    let expected_ready = lines.iter().filter(|l| l.trim() == "isready").count() + 1;
    let mut out = Vec::new();
    let mut seen = 0;
    while seen < expected_ready {
        match p.read_until("readyok", Duration::from_secs(60)) {
            Ok(ls) => {
                out.extend(ls.iter().map(|l| normalise(l)));
                out.push("readyok".into());
                seen += 1;
            }
            Err(_) => {
                return Err(Failure::new("harness-timeout-or-exit", json!({"script": lines, "stdout": p.transcript})));
            }
        }
    }
    p.send("quit");
    Ok(out)
}

fn part_runs(bytes: &[u8], stats: &mut Stats) -> Verdict {
    let mut s = Src::new(bytes);
    let n = 1 + s.below(6);
    let rounds = gen_rounds(&mut s, n);
    let mut lines: Vec<String> = Vec::new();
    for (i, r) in rounds.iter().enumerate() {
        if i > 0 && s.chance(10) {
            lines.push("ucinewgame".into());
        }
        lines.extend(r.lines.iter().cloned());
    }
    let runs = RUNS.with(|c| c.get());
    let first = run_script(&lines)?;
    stats.eval();
    for r in 1..runs {
        let other = run_script(&lines)?;
        stats.eval();
        if other != first {
            let idx = first.iter().zip(other.iter()).position(|(a, b)| a != b).unwrap_or(first.len().min(other.len()));
            return Err(Failure::new(
                "output-differs-between-process-runs",
                json!({"script": lines, "run": r, "first_difference_at_line": idx, "run0": first.get(idx), "other": other.get(idx), "run0_output": first, "other_output": other}),
            ));
        }
    }
    let carried = rounds.iter().skip(1).any(|r| r.same_game_as_previous);
    if rounds.len() >= 2 {
        stats.class("scripts_with_two_or_more_searches");
    }
    if carried {
        stats.class("later_search_continues_the_same_game");
        stats.nontrivial(&lines);
    }
    stats.sample(|| json!({"oracle": "run-to-run", "script": lines, "normalised_output_lines": first.len(), "last_lines": first.iter().rev().take(3).rev().collect::<Vec<_>>()}));
    Ok(())
}

fn part_newgame(bytes: &[u8], stats: &mut Stats) -> Verdict {
    let mut s = Src::new(bytes);
    let np = s.below(4);
    let prefix_rounds = gen_rounds(&mut s, np);
    let ns = 1 + s.below(3);
    let suffix_rounds = gen_rounds(&mut s, ns);
    let prefix: Vec<String> = prefix_rounds.iter().flat_map(|r| r.lines.iter().cloned()).collect();
    // sometimes the suffix starts with a go on whatever ucinewgame left (the start position)
    let mut suffix: Vec<String> = suffix_rounds.iter().flat_map(|r| r.lines.iter().cloned()).collect();
    if s.chance(15) {
        suffix.insert(0, format!("go depth {}", 1 + s.below(3)));
    }
    // process 1: prefix, barrier, ucinewgame, suffix
    let mut p = Proc::spawn().map_err(|e| Failure::new("harness-no-engine", json!({"error": e})))?;
    for l in &prefix {
        p.send(l);
    }
    p.send("isready");
    let n_ready = prefix.iter().filter(|l| l.trim() == "isready").count() + 1;
    for _ in 0..n_ready {
        if p.read_until("readyok", Duration::from_secs(60)).is_err() {
            return Err(Failure::new("harness-timeout-or-exit", json!({"script": prefix, "stdout": p.transcript})));
        }
    }
    p.send("ucinewgame");
    for l in &suffix {
        p.send(l);
    }
    p.send("isready");
    let n_ready2 = suffix.iter().filter(|l| l.trim() == "isready").count() + 1;
    let mut after: Vec<String> = Vec::new();
    for _ in 0..n_ready2 {
        match p.read_until("readyok", Duration::from_secs(60)) {
            Ok(ls) => {
                after.extend(ls.iter().map(|l| normalise(l)));
                after.push("readyok".into());
            }
            Err(_) => return Err(Failure::new("harness-timeout-or-exit", json!({"prefix": prefix, "suffix": suffix, "stdout": p.transcript}))),
        }
    }
    p.send("quit");
    stats.eval();
    // process 2: suffix alone
    let fresh = run_script(&suffix)?;
    stats.eval();
    if fresh != after {
        let idx = fresh.iter().zip(after.iter()).position(|(a, b)| a != b).unwrap_or(fresh.len().min(after.len()));
        return Err(Failure::new(
            "ucinewgame-not-like-fresh-process",
            json!({"prefix": prefix, "suffix": suffix, "first_difference_at_line": idx, "after_ucinewgame": after.get(idx), "fresh_process": fresh.get(idx), "after_ucinewgame_output": after, "fresh_output": fresh}),
        ));
    }
    let prefix_searches = prefix.iter().filter(|l| l.starts_with("go")).count();
    if prefix_searches >= 1 {
        stats.class("prefix_contains_a_search");
        stats.nontrivial(&(prefix.clone(), suffix.clone()));
    }
    stats.sample(|| json!({"oracle": "fresh-equivalence", "prefix": prefix, "suffix": suffix, "output_lines": fresh.len()}));
    Ok(())
}

/// In-process amplifier (not the deciding oracle — the statement is about the complete output of
/// the process): the same sequence of depth-limited searches of one game on K searchers, each
/// with its own key draw, must give identical (score, move, node count) sequences.
fn part_inprocess(bytes: &[u8], stats: &mut Stats) -> Verdict {
    use flsrc::search::Searcher;
    let mut s = Src::new(bytes);
    let start = gen::g_small(&mut s).0;
    let n_searches = 2 + s.below(4);
    // the game: start, then 1..2 plies between searches
    let mut positions = vec![start.clone()];
    let mut p = start;
    for _ in 1..n_searches {
        for _ in 0..1 + s.below(2) {
            let legal = p.legal_moves();
            let Some(m) = gen::choose_move(&mut s, &p, &legal) else { break };
            p = p.make(m);
        }
        positions.push(p.clone());
    }
    let depths: Vec<u8> = positions.iter().map(|_| 1 + s.below(4) as u8).collect();
    const K: usize = 4;
    let mut outs: Vec<Vec<(i32, Option<String>, u64)>> = Vec::new();
    for _ in 0..K {
        let mut sr = Searcher::new();
        sr.verif_set_hard_cap(Some(400_000));
        let mut out = Vec::new();
        for (q, d) in positions.iter().zip(depths.iter()) {
            let b = crate::eng::to_board(q);
            let r = std::panic::catch_unwind(std::panic::AssertUnwindSafe(|| sr.find_best_move(&b, *d, None)));
            match r {
                Ok((score, mv)) => out.push((score, mv.map(|m| m.to_algebraic()), sr.verif_nodes())),
                Err(_) => {
                    stats.exclude("in-process search over the node watchdog");
                    return Ok(());
                }
            }
        }
        outs.push(out);
    }
    stats.evals(K as u64);
    for k in 1..K {
        if outs[k] != outs[0] {
            let idx = outs[0].iter().zip(outs[k].iter()).position(|(a, b)| a != b).unwrap_or(0);
            return Err(Failure::new(
                "search-depends-on-key-draw",
                json!({"game": positions.iter().map(|q| q.fen(0,1)).collect::<Vec<_>>(), "depths": depths, "first_difference_at_search": idx,
                       "searcher_0": format!("{:?}", outs[0].get(idx)), "other_searcher": format!("{:?}", outs[k].get(idx))}),
            ));
        }
    }
    stats.class("inprocess_games_on_4_key_draws");
    stats.nontrivial(&(positions[0].fen4(), depths.clone(), positions.len()));
    Ok(())
}

pub fn run(tier: Tier, seed: u64, known: &Known) -> PropRun {
    let mut run = PropRun::new("exploration", RULE);
    run.assumptions = vec![
        "'every key set' is sampled with R process runs per script: a dependence confined to a negligible fraction of key draws is out of reach".into(),
        "only the time and nps fields of info lines are removed before comparison".into(),
    ];
    if crate::blackbox::engine_path().is_none() {
        run.inconclusive = Some("engine binary not built".into());
        return run;
    }
    let runs = tier.pick(3usize, 8usize);
    run.extra.insert("process_runs_per_script".into(), json!(runs));
    let part = Part { name: "runs", cases: tier.pick(250, 6_000), min_len: 24, max_len: 900, max_shrink: 40, threads: threads() };
    let (st, fl) = run_part(&part, seed, known, |b, st| {
        RUNS.with(|c| c.set(runs));
        part_runs(b, st)
    });
    run.stats.merge(st);
    if fl.is_some() {
        run.failure = fl;
        return run;
    }
    let part = Part { name: "newgame", cases: tier.pick(150, 4_000), min_len: 24, max_len: 900, max_shrink: 40, threads: threads() };
    let (st, fl) = run_part(&part, seed, known, part_newgame);
    run.stats.merge(st);
    if fl.is_some() {
        run.failure = fl;
        return run;
    }
    let part = Part { name: "inprocess", cases: tier.pick(1_500, 60_000), min_len: 24, max_len: 400, max_shrink: 200, threads: threads() };
    let (st, fl) = run_part(&part, seed, known, part_inprocess);
    run.stats.merge(st);
    run.failure = fl;
    run
}

pub fn replay(part: &str, bytes: &[u8], _case: &Value, stats: &mut Stats) -> Verdict {
    RUNS.with(|c| c.set(4));
    match part {
        "newgame" => part_newgame(bytes, stats),
        "inprocess" => part_inprocess(bytes, stats),
        _ => part_runs(bytes, stats),
    }
}
