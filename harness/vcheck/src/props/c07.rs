//! C07 — search stops promptly at its deadline.

use crate::eng;
use crate::gen;
use crate::props::threads;
use crate::runner::{run_part, Failure, Known, Part, Verdict};
use crate::src::Src;
use crate::stats::Stats;
use crate::{PropRun, Tier};
use flsrc::search::Searcher;
use refchess::Pos;
use serde_json::{json, Value};
use std::cell::Cell;

pub const L_POLL: u64 = 4096;
pub const L_AFTER: u64 = 256;
pub const HARD: u64 = 2_000_000;

pub const RULE: &str = "valid positions: the C05 mixture, the general mixture (full middlegames) and explosive shapes (rows of pawns one step from promotion on both sides, several queens, long checking sequences), depth 1..5 (or 64 as with a clock-only go), x optional earlier searches on the same engine (same or neighbouring position, depth 1..4, without deadline or themselves cut off by a small deadline; 3 %: a middlegame search of up to 1.4 M nodes ended by its own deadline) x expiry point k (node-count deadline through the SearchTimer hook: at node k the timer's own limit becomes zero, the engine's real deadline test decides): k log-uniform in 1..300k (thorough 3M), and ALL k in 1..T-1 for small searches. Oracle on instrumentation counters after find_best_move returns: first poll that sees the expired budget comes <= 4096 nodes after expiry; <= 256 further nodes are expanded after that observation; the search returns at all (hard cap k+2M nodes turns 'never stops' into a caught panic). Non-trivial = the deadline fell inside the search (a poll returned true before the search would have finished); distinct by (FEN, depth, k). Black-box layer (real binary, real clock): go movetime T / a clock with T left / depth 64 movetime T, T in 0..300 ms (one case in seven 700..1500 ms), on explosive, middlegame and game positions, optionally after an earlier depth-limited search in the same process (half of them with a generous move time or clock of their own, which they do not use up) or, one case in eight, after a timed search that used up a budget of 350..800 ms; CPU time consumed between go and bestmove <= T + 300 ms (non-trivial = the last completed iteration is below depth 64, i.e. the clock ended the search).";

thread_local! {
    static KMAX: Cell<u64> = Cell::new(300_000);
}

pub fn judge(p: &Pos, d: u8, k: u64, stats: &mut Stats, gen_kind: &str) -> Verdict {
    judge_after(&[], p, d, k, stats, gen_kind)
}

/// `earlier`: searches without any deadline run on the same engine before the one under test
/// ("at every point of the search" includes searches that are not the first of their process).
pub fn judge_after(earlier: &[(Pos, u8, Option<u64>)], p: &Pos, d: u8, k: u64, stats: &mut Stats, gen_kind: &str) -> Verdict {
    let b = eng::to_board(p);
    let fen = eng::fen(&p);
    let mut searcher = Searcher::new();
    let mut earlier_nodes: Vec<u64> = Vec::new();
    for (q, dq, dl) in earlier {
        // an earlier search: without a deadline (node watchdog 400 000), or itself ended by a node
        // deadline (a search cut off earlier, small or of a million nodes and more)
        searcher.verif_set_node_limit(*dl);
        searcher.verif_set_hard_cap(Some(dl.map(|x| x + HARD).unwrap_or(400_000)));
        let bq = eng::to_board(q);
        if std::panic::catch_unwind(std::panic::AssertUnwindSafe(|| searcher.find_best_move(&bq, *dq, None))).is_err() {
            stats.exclude("earlier unlimited search over the node watchdog");
            return Ok(());
        }
        earlier_nodes.push(searcher.verif_nodes());
    }
    let earlier_desc: Vec<Value> = earlier.iter().zip(earlier_nodes.iter()).map(|((q, dq, dl), n)| json!({"fen": eng::fen(&q), "depth": dq, "node_deadline": dl, "nodes": n})).collect();
    searcher.verif_set_node_limit(Some(k));
    searcher.verif_set_hard_cap(Some(k + HARD));
    let r = std::panic::catch_unwind(std::panic::AssertUnwindSafe(|| searcher.find_best_move(&b, d, None)));
    stats.eval();
    if let Err(pn) = r {
        let msg = crate::panic_text(&pn);
        if msg.contains("node hard cap") {
            return Err(Failure::new("search-does-not-stop", json!({"fen": fen, "depth": d, "deadline_nodes": k, "expanded_more_than": k + HARD, "gen": gen_kind, "earlier_searches_on_this_engine": earlier_desc})));
        }
        return Err(Failure::new("search-panic", json!({"fen": fen, "depth": d, "deadline_nodes": k, "panic": msg})));
    }
    let t = searcher.verif_timer();
    let nodes = t.nodes();
    let first = t.verif.first_true_at.get();
    match first {
        None => {
            // the search finished (or never polled) before the deadline
            if nodes > k + L_POLL {
                return Err(Failure::new("deadline-never-observed", json!({"fen": fen, "depth": d, "deadline_nodes": k, "nodes_at_return": nodes, "gen": gen_kind, "earlier_searches_on_this_engine": earlier_desc})));
            }
            stats.class("finished_before_deadline");
        }
        Some(f) => {
            if f.saturating_sub(k) > L_POLL {
                return Err(Failure::new("deadline-observed-late", json!({"fen": fen, "depth": d, "deadline_nodes": k, "first_observed_at": f, "allowed": L_POLL, "gen": gen_kind, "earlier_searches_on_this_engine": earlier_desc})));
            }
            if nodes - f > L_AFTER {
                return Err(Failure::new("work-after-deadline-observed", json!({"fen": fen, "depth": d, "deadline_nodes": k, "first_observed_at": f, "nodes_at_return": nodes, "allowed": L_AFTER, "gen": gen_kind, "earlier_searches_on_this_engine": earlier_desc})));
            }
            stats.maximum("max_observation_latency_nodes", (f - k.min(f)) as i64);
            stats.maximum("max_nodes_after_observation", (nodes - f) as i64);
            stats.class("deadline_inside_search");
            if !earlier.is_empty() {
                stats.class("deadline_inside_search_after_earlier_searches");
                if earlier_nodes.iter().any(|n| *n > k) {
                    stats.class("deadline_earlier_than_an_earlier_search_was_long");
                }
            }
            stats.class(&format!("inside_{}", gen_kind));
            stats.nontrivial(&(p.fen4(), d, k));
            stats.sample(|| json!({"fen": fen, "depth": d, "deadline_nodes": k, "first_observed_at": f, "nodes_at_return": nodes, "gen": gen_kind, "earlier_searches_on_this_engine": earlier_desc}));
        }
    }
    Ok(())
}

fn gen_case(s: &mut Src) -> (Pos, &'static str) {
    match s.weighted(&[30, 30, 40]) {
        0 => gen::g_small(s),
        1 => gen::g_mix(s),
        _ => (gen::g_motif_n(s, 8), "explosive"),
    }
}

fn part_sampled(bytes: &[u8], stats: &mut Stats) -> Verdict {
    let mut s = Src::new(bytes);
    let (p, kind) = gen_case(&mut s);
    if p.legal_moves().is_empty() {
        stats.exclude("terminal root");
        return Ok(());
    }
    let d = *s.pick(&[1u8, 2, 3, 4, 5, 64]);
    // log-uniform k
    let kmax = KMAX.with(|c| c.get());
    let bits = (64 - kmax.leading_zeros()) as usize;
    let e = s.below(bits);
    let k = ((1u64 << e) + (s.u32() as u64 % (1u64 << e))).min(kmax).max(1);
    // 40%: one or two earlier searches (no deadline) of the same or a neighbouring position
    let mut earlier: Vec<(Pos, u8, Option<u64>)> = Vec::new();
    // 3%: an engine that has just searched a million nodes and more of a middlegame (ended by its own
    // deadline) — counters and schedules that depend on how much was searched before
    if s.chance(3) {
        let mut hp = Pos::startpos();
        for _ in 0..s.below(7) {
            let legal = hp.legal_moves();
            match gen::choose_move(&mut s, &hp, &legal) {
                Some(m) if !hp.make(m).legal_moves().is_empty() => hp = hp.make(m),
                _ => break,
            }
        }
        earlier.push((hp, 12, Some(*s.pick(&[70_000u64, 300_000, 1_100_000, 1_400_000]))));
        stats.class("after_an_earlier_search_of_up_to_1.4M_nodes_ended_by_its_own_deadline");
    }
    if s.chance(40) {
        for _ in 0..1 + s.below(2) {
            let q = if s.bool() {
                p.clone()
            } else {
                let legal = p.legal_moves();
                match gen::choose_move(&mut s, &p, &legal) {
                    Some(m) if !p.make(m).legal_moves().is_empty() => p.make(m),
                    _ => p.clone(),
                }
            };
            // one in four of them is itself cut off by a small deadline
            let dl = if s.chance(25) { Some(1 + s.below(3000) as u64) } else { None };
            earlier.push((q, 1 + s.below(4) as u8, dl));
        }
    }
    judge_after(&earlier, &p, d, k, stats, kind)
}

fn part_enumerated(bytes: &[u8], stats: &mut Stats) -> Verdict {
    let mut s = Src::new(bytes);
    let (p, kind) = gen::g_small(&mut s);
    if p.legal_moves().is_empty() {
        stats.exclude("terminal root");
        return Ok(());
    }
    let d = 1 + s.below(3) as u8;
    let b = eng::to_board(&p);
    let mut s0 = Searcher::new();
    s0.verif_set_hard_cap(Some(1_500));
    if std::panic::catch_unwind(std::panic::AssertUnwindSafe(|| s0.find_best_move(&b, d, None))).is_err() {
        stats.exclude("search larger than the enumeration bound");
        return Ok(());
    }
    let t = s0.verif_nodes();
    stats.class("positions_all_expiry_points_enumerated");
    for k in 1..t {
        judge(&p, d, k, stats, kind)?;
    }
    Ok(())
}

/// Allowance (CPU milliseconds) for work done after the budget of a go has been used up.
/// The process is single-threaded, so its CPU time never exceeds the wall-clock time since the
/// go was sent: CPU time above budget + allowance is work done after the deadline, however the
/// machine is loaded.  (The verdict never depends on wall-clock time.)
pub const CPU_ALLOW_MS: u64 = 300;

fn ticks_ms(t: u64) -> u64 {
    let hz = unsafe { libc::sysconf(libc::_SC_CLK_TCK) }.max(1) as u64;
    t * 1000 / hz
}

/// Black-box layer: the real binary, a real clock.  `go movetime T` (or a clock whose whole
/// remaining time is T) on explosive / middlegame / game positions, possibly after earlier
/// searches in the same process; the CPU time the process consumes between the go and its
/// bestmove must stay below T + CPU_ALLOW_MS.
fn part_blackbox(bytes: &[u8], stats: &mut Stats) -> Verdict {
    let mut s = Src::new(bytes);
    let (p, kind) = match s.weighted(&[42, 22, 20, 16]) {
        0 => (gen::g_motif_n(&mut s, 8), "explosive"),
        1 => gen::g_mix(&mut s),
        3 => {
            // small and blocked positions: the search gets twenty and more iterations deep within the budget
            let (q, _) = gen::g_small(&mut s);
            (q, "small")
        }
        _ => (gen::g_play(&mut s), "game"),
    };
    if p.legal_moves().is_empty() {
        stats.exclude("terminal root");
        return Ok(());
    }
    let fen = eng::fen(&p);
    // mostly short budgets; one case in seven a long one (a deadline that MOVES — extended in
    // proportion to the budget — only shows when the budget is large against the allowance)
    let t_ms = if s.chance(15) { *s.pick(&[700u64, 1000, 1500]) } else { *s.pick(&[0u64, 1, 2, 5, 10, 20, 40, 80, 150, 300]) };
    let white = p.stm == refchess::Color::W;
    let go = match s.below(4) {
        0 | 1 => format!("go movetime {}", t_ms),
        2 => {
            // the mover's whole clock is T: whatever the allocation, it may not exceed it
            let other = *s.pick(&[0u64, 1, 1000, 60_000, 3_600_000]);
            let (w, b) = if white { (t_ms, other) } else { (other, t_ms) };
            format!("go wtime {} btime {} winc 0 binc 0", w, b)
        }
        _ => format!("go depth 64 movetime {}", t_ms),
    };
    // standard go tokens this engine may or may not implement (nodes, movestogo, mate): a go with a
    // move time or clock must come back in time whatever else the line says
    let go = if s.chance(20) {
        let extra = match s.below(3) {
            0 => format!("nodes {}", *s.pick(&[1_000_000u64, 6_000_000, 50_000_000])),
            1 => format!("movestogo {}", 1 + s.below(40)),
            _ => format!("mate {}", 1 + s.below(6)),
        };
        if go.starts_with("go movetime") && s.bool() { format!("go {} {}", extra, &go[3..]) } else { format!("{} {}", go, extra) }
    } else {
        go
    };
    let warm_depth = 1 + s.below(5) as u8;
    let warm = s.chance(45) && crate::script::cheap_search(&p, warm_depth, 400_000);
    let mut script = Vec::new();
    if warm {
        // an earlier depth-limited search of the same position, possibly longer than the budget of the go under test
        script.push(format!("position fen {}", fen));
        // ... with or without a budget of its own that it does not use up (a depth-limited search
        // under a generous move time or clock ends early: whatever it leaves unused is not the next
        // search's to spend)
        script.push(match s.below(4) {
            0 | 1 => format!("go depth {}", warm_depth),
            2 => format!("go depth {} movetime {}", warm_depth, *s.pick(&[1500u64, 3000, 6000])),
            _ => format!("go depth {} wtime 200000 btime 200000 winc 0 binc 0", warm_depth),
        });
        if s.chance(20) {
            // ... or a node budget of its own (standard token; ignored by an engine without it)
            let n = *s.pick(&[200_000u64, 6_000_000, 50_000_000]);
            if let Some(l) = script.last_mut() {
                l.push_str(&format!(" nodes {}", n));
            }
            stats.class("blackbox_after_an_earlier_search_with_a_nodes_token");
        }
        if script.last().map(|l| l.contains("time")).unwrap_or(false) {
            stats.class("blackbox_after_an_earlier_timed_search_that_ended_early");
        }
    }
    // one case in eight: the earlier search was itself a TIMED one that used its budget up (several
    // hundred milliseconds, a million nodes and more) — whatever the clock code remembers of it
    // (node counts, poll schedules, lags) meets a much shorter budget next
    if s.chance(12) {
        script.clear();
        script.push(format!("position fen {}", fen));
        script.push(format!("go movetime {}", *s.pick(&[350u64, 500, 800])));
        stats.class("blackbox_after_an_earlier_timed_search_that_used_its_budget");
    }
    script.push(format!("position fen {}", fen));
    judge_blackbox(&script, &go, t_ms, kind, stats)
}

/// `script` (position / earlier go lines), then `go` with a budget of `t_ms`: CPU time consumed
/// between that go and its bestmove must stay below t_ms + CPU_ALLOW_MS.
fn judge_blackbox(script: &[String], go: &str, t_ms: u64, kind: &str, stats: &mut Stats) -> Verdict {
    use crate::blackbox::{Proc, Wait};
    use std::time::{Duration, Instant};
    let script: Vec<String> = script.to_vec();
    let go = go.to_string();
    let warm = script.iter().any(|l| l.starts_with("go"));
    let fen = script.iter().rev().find(|l| l.starts_with("position fen ")).map(|l| l["position fen ".len()..].to_string()).unwrap_or_default();
    let p = match Pos::from_fen(&fen) {
        Ok(x) => x.0,
        Err(_) => Pos::startpos(),
    };
    let mut pr = match Proc::spawn() {
        Ok(p) => p,
        Err(e) => return Err(Failure::new("harness-engine-missing", json!({"error": e}))),
    };
    for l in &script {
        pr.send(l);
    }
    pr.send("isready");
    if pr.read_until("readyok", Duration::from_secs(60)).is_err() {
        // the warm-up go itself did not come back: judged by the main measurement of another case
        return Err(Failure::new("harness-no-readyok", json!({"fen": fen, "script": script})));
    }
    let c0 = pr.cpu_ticks().unwrap_or(0);
    let t0 = Instant::now();
    pr.send(&go);
    stats.eval();
    let mut last_depth: Option<u64> = None;
    let mut answered = false;
    let wall_watchdog = Duration::from_secs(120);
    loop {
        match pr.next_line(Duration::from_millis(20)) {
            Wait::Line(l) => {
                if l.starts_with("bestmove") {
                    answered = true;
                } else if l.starts_with("info ") {
                    let t: Vec<&str> = l.split_whitespace().collect();
                    if let Some(i) = t.iter().position(|x| *x == "depth") {
                        last_depth = t.get(i + 1).and_then(|x| x.parse().ok());
                    }
                }
            }
            Wait::Eof => break,
            Wait::Timeout | Wait::Idle => {}
        }
        let used = ticks_ms(pr.cpu_ticks().unwrap_or(c0).saturating_sub(c0));
        if used > t_ms + CPU_ALLOW_MS {
            pr.kill();
            return Err(Failure::new(
                "cpu-work-after-deadline",
                json!({"fen": fen, "go": go, "budget_ms": t_ms, "cpu_ms_used_since_go": used, "allowed_ms": t_ms + CPU_ALLOW_MS, "answered": answered, "earlier_search_in_process": warm, "gen": kind, "script": script}),
            ));
        }
        if answered {
            break;
        }
        if t0.elapsed() > wall_watchdog {
            pr.kill();
            return Err(Failure::new("harness-go-watchdog", json!({"fen": fen, "go": go, "cpu_ms_used_since_go": used})));
        }
    }
    if !answered {
        return Err(Failure::new("no-answer-process-ended", json!({"fen": fen, "go": go})));
    }
    let used = ticks_ms(pr.cpu_ticks().unwrap_or(c0).saturating_sub(c0));
    stats.maximum("max_cpu_ms_over_budget", used as i64 - t_ms as i64);
    pr.send("quit");
    stats.class(&format!("blackbox_{}", kind));
    if last_depth.map_or(true, |d| d < 64) {
        // the search was ended by the clock, not by its depth limit
        stats.class("blackbox_deadline_inside_search");
        stats.nontrivial(&(p.fen4(), go.clone(), warm));
        stats.sample(|| json!({"fen": fen, "go": go, "budget_ms": t_ms, "cpu_ms_used_since_go": used, "last_completed_depth": last_depth, "earlier_search_in_process": warm, "gen": kind}));
    } else {
        stats.class("blackbox_finished_before_deadline");
    }
    Ok(())
}

pub fn run(tier: Tier, seed: u64, known: &Known) -> PropRun {
    let mut run = PropRun::new("fault_enumeration", RULE);
    run.assumptions = vec![
        "black-box layer: CPU time of the single-threaded engine process between go and bestmove is a lower bound of the wall-clock time, so CPU time above budget + 300 ms is work after the deadline whatever the machine load; wall-clock time is never a verdict".into(),
        "deadline expressed in nodes through the SearchTimer hook; 'a small constant of time' follows from <= 256 nodes after the observed expiry only because the per-node cost is bounded (argument, not measured)".into(),
        "polling granularity up to 4096 nodes is deliberately allowed".into(),
    ];
    let kmax = tier.pick(300_000u64, 3_000_000u64);
    run.extra.insert("k_max".into(), json!(kmax));
    // the black-box layer runs FIRST: a search that never comes back is, for this property, the
    // violation itself, and only the real process can be watched from outside (CPU time consumed
    // after the budget); the in-process parts can only end such a run as inconclusive
    // the real binary under a real clock, judged on CPU time (never on wall-clock time)
    if crate::blackbox::engine_path().is_none() {
        run.inconclusive = Some("engine binary not built".into());
        return run;
    }
    let part = Part { name: "blackbox", cases: tier.pick(320, 6_000), min_len: 24, max_len: 400, max_shrink: 40, threads: threads() };
    let (st, fl) = run_part(&part, seed, known, part_blackbox);
    run.stats.merge(st);
    if fl.is_some() {
        run.failure = fl;
        return run;
    }
    let part = Part { name: "enumerated", cases: tier.pick(48, 1_000), min_len: 24, max_len: 400, max_shrink: 100, threads: threads() };
    let (st, fl) = run_part(&part, seed, known, part_enumerated);
    run.stats.merge(st);
    if fl.is_some() {
        run.failure = fl;
        return run;
    }
    let part = Part { name: "sampled", cases: tier.pick(3_000, 60_000), min_len: 24, max_len: 400, max_shrink: 200, threads: threads() };
    let (st, fl) = run_part(&part, seed, known, |b, st| {
        KMAX.with(|c| c.set(kmax));
        part_sampled(b, st)
    });
    run.stats.merge(st);
    if fl.is_some() {
        run.failure = fl;
        return run;
    }
    // informational wall-clock figures from the real binary (never a verdict)
    if let Some(info) = crate::blackbox::movetime_timings() {
        run.extra.insert("wall_clock_information_only".into(), info);
    }
    run
}

pub fn replay(part: &str, bytes: &[u8], case: &Value, stats: &mut Stats) -> Verdict {
    KMAX.with(|c| c.set(3_000_000));
    // structural replay of a black-box case: the saved script, go line and budget
    if let (Some(sc), Some(go), Some(t)) = (case.get("script").and_then(|x| x.as_array()), case.get("go").and_then(|x| x.as_str()), case.get("budget_ms").and_then(|x| x.as_u64())) {
        let script: Vec<String> = sc.iter().filter_map(|x| x.as_str().map(|s| s.to_string())).collect();
        return judge_blackbox(&script, go, t, "replay", stats);
    }
    // structural replay of an in-process case: (earlier searches, FEN, depth, deadline)
    if let (Some(fen), Some(d), Some(k)) = (case.get("fen").and_then(|x| x.as_str()), case.get("depth").and_then(|x| x.as_u64()), case.get("deadline_nodes").and_then(|x| x.as_u64())) {
        if let Some(p) = eng::pos_from_saved_fen(fen) {
            let mut earlier: Vec<(Pos, u8, Option<u64>)> = Vec::new();
            if let Some(a) = case.get("earlier_searches_on_this_engine").and_then(|x| x.as_array()) {
                for e in a {
                    if let (Some(f), Some(dq)) = (e.get("fen").and_then(|x| x.as_str()), e.get("depth").and_then(|x| x.as_u64())) {
                        if let Ok((q, _, _)) = Pos::from_fen(f) {
                            earlier.push((q, dq as u8, e.get("node_deadline").and_then(|x| x.as_u64())));
                        }
                    }
                }
            }
            return judge_after(&earlier, &p, d as u8, k, stats, "replay");
        }
    }
    match part {
        "enumerated" => part_enumerated(bytes, stats),
        "blackbox" => part_blackbox(bytes, stats),
        _ => part_sampled(bytes, stats),
    }
}

/// Byte-level entry for the fuzz target: the in-process sampled part.
pub fn fuzz_entry(bytes: &[u8]) -> Verdict {
    KMAX.with(|c| c.set(60_000));
    let mut st = Stats::new();
    part_sampled(bytes, &mut st)
}
