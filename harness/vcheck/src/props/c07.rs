//! C07 — search stops promptly at its deadline.

use crate::eng;
use crate::gen;
use crate::props::threads;
use crate::runner::{run_part, Failure, Known, Part, Verdict};
use crate::src::Src;
use crate::stats::Stats;
use crate::{PropRun, Tier};
use flsrc::search::Searcher;
use refchess::Pos;
use serde_json::{json, Value};
use std::cell::Cell;

pub const L_POLL: u64 = 4096;
pub const L_AFTER: u64 = 256;
pub const HARD: u64 = 2_000_000;

pub const RULE: &str = "valid positions: the C05 mixture, the general mixture (full middlegames) and explosive shapes (rows of pawns one step from promotion on both sides, several queens, long checking sequences), depth 1..5 (or 64 as with a clock-only go), x expiry point k (node-count deadline through the SearchTimer hook): k log-uniform in 1..300k (thorough 3M), and ALL k in 1..T-1 for small searches. Oracle on instrumentation counters after find_best_move returns: first poll that sees the expired budget comes <= 4096 nodes after expiry; <= 256 further nodes are expanded after that observation; the search returns at all (hard cap k+2M nodes turns 'never stops' into a caught panic). Non-trivial = the deadline fell inside the search (a poll returned true before the search would have finished); distinct by (FEN, depth, k).";

thread_local! {
    static KMAX: Cell<u64> = Cell::new(300_000);
}

pub fn judge(p: &Pos, d: u8, k: u64, stats: &mut Stats, gen_kind: &str) -> Verdict {
    let b = eng::to_board(p);
    let fen = p.fen(0, 1);
    let mut searcher = Searcher::new();
    searcher.verif_set_node_limit(Some(k));
    searcher.verif_set_hard_cap(Some(k + HARD));
    let r = std::panic::catch_unwind(std::panic::AssertUnwindSafe(|| searcher.find_best_move(&b, d, None)));
    stats.eval();
    if let Err(pn) = r {
        let msg = crate::panic_text(&pn);
        if msg.contains("node hard cap") {
            return Err(Failure::new("search-does-not-stop", json!({"fen": fen, "depth": d, "deadline_nodes": k, "expanded_more_than": k + HARD, "gen": gen_kind})));
        }
        return Err(Failure::new("search-panic", json!({"fen": fen, "depth": d, "deadline_nodes": k, "panic": msg})));
    }
    let t = searcher.verif_timer();
    let nodes = t.nodes();
    let first = t.verif.first_true_at.get();
    match first {
        None => {
            // the search finished (or never polled) before the deadline
            if nodes > k + L_POLL {
                return Err(Failure::new("deadline-never-observed", json!({"fen": fen, "depth": d, "deadline_nodes": k, "nodes_at_return": nodes, "gen": gen_kind})));
            }
            stats.class("finished_before_deadline");
        }
        Some(f) => {
            if f.saturating_sub(k) > L_POLL {
                return Err(Failure::new("deadline-observed-late", json!({"fen": fen, "depth": d, "deadline_nodes": k, "first_observed_at": f, "allowed": L_POLL, "gen": gen_kind})));
            }
            if nodes - f > L_AFTER {
                return Err(Failure::new("work-after-deadline-observed", json!({"fen": fen, "depth": d, "deadline_nodes": k, "first_observed_at": f, "nodes_at_return": nodes, "allowed": L_AFTER, "gen": gen_kind})));
            }
            stats.maximum("max_observation_latency_nodes", (f - k.min(f)) as i64);
            stats.maximum("max_nodes_after_observation", (nodes - f) as i64);
            stats.class("deadline_inside_search");
            stats.class(&format!("inside_{}", gen_kind));
            stats.nontrivial(&(p.fen4(), d, k));
            stats.sample(|| json!({"fen": fen, "depth": d, "deadline_nodes": k, "first_observed_at": f, "nodes_at_return": nodes, "gen": gen_kind}));
        }
    }
    Ok(())
}

fn gen_case(s: &mut Src) -> (Pos, &'static str) {
    match s.weighted(&[30, 30, 40]) {
        0 => gen::g_small(s),
        1 => gen::g_mix(s),
        _ => (gen::g_motif_n(s, 8), "explosive"),
    }
}

fn part_sampled(bytes: &[u8], stats: &mut Stats) -> Verdict {
    let mut s = Src::new(bytes);
    let (p, kind) = gen_case(&mut s);
    if p.legal_moves().is_empty() {
        stats.exclude("terminal root");
        return Ok(());
    }
    let d = *s.pick(&[1u8, 2, 3, 4, 5, 64]);
    // log-uniform k
    let kmax = KMAX.with(|c| c.get());
    let bits = (64 - kmax.leading_zeros()) as usize;
    let e = s.below(bits);
    let k = ((1u64 << e) + (s.u32() as u64 % (1u64 << e))).min(kmax).max(1);
    judge(&p, d, k, stats, kind)
}

fn part_enumerated(bytes: &[u8], stats: &mut Stats) -> Verdict {
    let mut s = Src::new(bytes);
    let (p, kind) = gen::g_small(&mut s);
    if p.legal_moves().is_empty() {
        stats.exclude("terminal root");
        return Ok(());
    }
    let d = 1 + s.below(3) as u8;
    let b = eng::to_board(&p);
    let mut s0 = Searcher::new();
    s0.verif_set_hard_cap(Some(1_500));
    if std::panic::catch_unwind(std::panic::AssertUnwindSafe(|| s0.find_best_move(&b, d, None))).is_err() {
        stats.exclude("search larger than the enumeration bound");
        return Ok(());
    }
    let t = s0.verif_nodes();
    stats.class("positions_all_expiry_points_enumerated");
    for k in 1..t {
        judge(&p, d, k, stats, kind)?;
    }
    Ok(())
}

pub fn run(tier: Tier, seed: u64, known: &Known) -> PropRun {
    let mut run = PropRun::new("fault_enumeration", RULE);
    run.assumptions = vec![
        "deadline expressed in nodes through the SearchTimer hook; 'a small constant of time' follows from <= 256 nodes after the observed expiry only because the per-node cost is bounded (argument, not measured)".into(),
        "polling granularity up to 4096 nodes is deliberately allowed".into(),
    ];
    let kmax = tier.pick(300_000u64, 3_000_000u64);
    run.extra.insert("k_max".into(), json!(kmax));
    let part = Part { name: "enumerated", cases: tier.pick(48, 1_000), min_len: 24, max_len: 400, max_shrink: 100, threads: threads() };
    let (st, fl) = run_part(&part, seed, known, part_enumerated);
    run.stats.merge(st);
    if fl.is_some() {
        run.failure = fl;
        return run;
    }
    let part = Part { name: "sampled", cases: tier.pick(3_000, 60_000), min_len: 24, max_len: 400, max_shrink: 200, threads: threads() };
    let (st, fl) = run_part(&part, seed, known, |b, st| {
        KMAX.with(|c| c.set(kmax));
        part_sampled(b, st)
    });
    run.stats.merge(st);
    run.failure = fl;
    // informational wall-clock figures from the real binary (never a verdict)
    if let Some(info) = crate::blackbox::movetime_timings() {
        run.extra.insert("wall_clock_information_only".into(), info);
    }
    run
}

pub fn replay(part: &str, bytes: &[u8], _case: &Value, stats: &mut Stats) -> Verdict {
    KMAX.with(|c| c.set(3_000_000));
    match part {
        "enumerated" => part_enumerated(bytes, stats),
        _ => part_sampled(bytes, stats),
    }
}
