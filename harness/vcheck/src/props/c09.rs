//! C09 — third occurrence of a position in the game is scored as a draw.

use crate::eng;
use crate::gen;
use crate::props::threads;
use crate::refsearch::{class, neg, show, RefSearch};
use crate::runner::{run_part, Failure, Known, Part, Verdict};
use crate::src::Src;
use crate::stats::Stats;
use crate::{PropRun, Tier};
use flsrc::uci::Flounder;
use refchess::{Kind, Mv, Pos};
use serde_json::{json, Value};

pub const RULE: &str = "game histories with controlled multiplicities: from startpos or a generated valid FEN, a random prefix (one start-position game in twelve: 200..600 plies without a repeated position), then shuffle cycles (both sides move a man out and back, 0..3 full cycles, knight/king/rook/bishop/queen shuffles, with and without lost castling rights, vanished ep squares or an intervening irreversible move) and a partial cycle, so that the candidate successors of the final position P have 0, 1, 2 or >=3 earlier occurrences; 1..2 position commands on a fresh engine (only the last one's history may count; in a fifth of the cases the game is given first and then its final position again as a bare 'position fen …' / 'position startpos' without moves, whose history is that single position). Oracle (value level, through the real command path): 'position ...' then 'go depth 1'; the score of the completed depth-1 iteration must equal max over legal m of ( n(m) >= 2 ? 0 : -Q(P·m) ), Q = reference quiescence value, n(m) = occurrences of P·m in the most recent command's history. Successors whose count differs between the rule-book identity (ep only if capturable) and the exact-field identity are not judged. Non-trivial = the case discriminates (value with the draw rule != value without it, or a successor seen exactly once keeps its real non-zero value while deciding the maximum) ; distinct by command text. Part 'interrupted': the same oracle after 1..3 searches of the judged position that were cut off by a node deadline (mostly inside their first iterations) with no position command in between; half of the cases are judged by 'go depth 1' (excluded when it used a cached result), half by 'go depth 2|3' with the oracle of the part 'deep' (what the cut searches cached is true for this very history; excluded only when a DEEPER cached result was used). Part 'two-components' (ENUMERATED, about 1150 histories): a double pawn push on every file, then rook, king or knight shuffles of both sides (every combination of lost rights) after which the position comes back WITHOUT its en-passant square AND without a castling right (two components differ at once: a different position by any reading), and the same without the push (the position comes back differing in castling rights only, one to four of them at once), stopped one move before that later position would occur the second time: its value must be the real one. Part 'veteran': the same depth-1 oracle on an engine that keeps searching heavy middlegame positions in between (chunks of 1.4 M nodes ended by a node deadline; 9 chunks per engine quick, 40 thorough), one few-men case after every chunk — the tables hold hundreds of thousands of entries by then (maximum reported), nothing of which the case may use (a judged search that used a cached result is excluded). Part 'deep' (values two and three plies down): the same kind of game (mostly 3..6 men, often one or two plies off the shuffle cycle so that the twice-seen positions lie two or three plies below the root), then 'go depth 2|3' on a fresh engine; EVERY completed iteration i must report V_h(P,i) = plain minimax over the reference rules in which any position below the root that the judged history already shows twice is worth 0, leaves by the reference quiescence (with depth <= 3 no position can recur inside the line itself, and the deeper-entry-reuse counter must be 0). Cases whose value differs between the two identities of positions are not judged. Non-trivial there = the rule applied one ply below the root only would give another value (a draw two or three plies down decides), or an abandoned earlier game would; distinct by (command text, depth).";

pub fn reversible(p: &Pos, m: &Mv) -> bool {
    let i = p.info(*m);
    let k = p.sq[m.from as usize].unwrap().1;
    !i.capture && !i.castle && !i.promo && k != Kind::P
}

/// One out-and-back cycle (a, b, a', b') of reversible moves from `x`, if there is one: the
/// placement, side to move and castling rights come back, an en-passant right does not.
pub fn one_cycle(s: &mut Src, x: &Pos) -> Option<[Mv; 4]> {
    let la: Vec<Mv> = x.legal_moves().into_iter().filter(|m| reversible(x, m)).collect();
    if la.is_empty() {
        return None;
    }
    let a = la[s.below(la.len())];
    let x1 = x.make(a);
    let lb: Vec<Mv> = x1.legal_moves().into_iter().filter(|m| reversible(&x1, m) && m.to != a.from).collect();
    if lb.is_empty() {
        return None;
    }
    let b = lb[s.below(lb.len())];
    let x2 = x1.make(b);
    let ar = Mv { from: a.to, to: a.from, promo: None };
    if !x2.legal_moves().contains(&ar) {
        return None;
    }
    let x3 = x2.make(ar);
    let br = Mv { from: b.to, to: b.from, promo: None };
    if !x3.legal_moves().contains(&br) {
        return None;
    }
    Some([a, b, ar, br])
}

/// Builds the move list: prefix + cycles*(a,b,a',b') + (a,b,a').  Returns moves and the would-be
/// closing move b'.
pub fn build_history(s: &mut Src, start: &Pos) -> Option<(Vec<Mv>, Pos)> {
    // one game in twelve from the start position is LONG before the shuffles begin: 200..600 plies
    // without a repeated position (the record the position command builds gets hundreds of entries)
    let (mut moves, x): (Vec<Mv>, Pos) = if *start == Pos::startpos() && s.chance(8) {
        let n = 200 + s.below(400);
        let (m, x, _) = gen::long_game(s, n);
        (m, x)
    } else {
        let prefix = gen::ply_count(s, 40);
        let (steps, x) = gen::playout(s, start, prefix);
        (steps.iter().map(|t| t.1).collect(), x)
    };
    let la: Vec<Mv> = x.legal_moves().into_iter().filter(|m| reversible(&x, m)).collect();
    if la.is_empty() {
        return None;
    }
    let a = la[s.below(la.len())];
    let x1 = x.make(a);
    let lb: Vec<Mv> = x1.legal_moves().into_iter().filter(|m| reversible(&x1, m) && m.to != a.from).collect();
    if lb.is_empty() {
        return None;
    }
    let b = lb[s.below(lb.len())];
    let x2 = x1.make(b);
    let ar = Mv { from: a.to, to: a.from, promo: None };
    if !x2.legal_moves().contains(&ar) {
        return None;
    }
    let x3 = x2.make(ar);
    let br = Mv { from: b.to, to: b.from, promo: None };
    if !x3.legal_moves().contains(&br) {
        return None;
    }
    let cycles = s.weighted(&[15, 40, 30, 15]);
    let mut p = x.clone();
    for c in 0..cycles {
        for m in [a, b, ar, br] {
            if !p.legal_moves().contains(&m) {
                return None;
            }
            p = p.make(m);
            moves.push(m);
        }
        // sometimes an irreversible move between cycles (resets what can recur)
        if c + 1 < cycles && s.chance(12) {
            let irr: Vec<Mv> = p.legal_moves().into_iter().filter(|m| !reversible(&p, m) && !p.info(*m).capture).collect();
            if !irr.is_empty() {
                let m1 = irr[s.below(irr.len())];
                let q = p.make(m1);
                let l2 = q.legal_moves();
                if !l2.is_empty() {
                    let m2 = l2[s.below(l2.len())];
                    moves.push(m1);
                    moves.push(m2);
                    p = q.make(m2);
                }
            }
        }
    }
    // long reversible excursion (out and back, 4n-1 plies): the earlier occurrences become OLD —
    // up to ~180 plies before the root, still inside what the 75-move rule allows
    if cycles >= 1 && s.chance(35) {
        let n = *s.pick(&[2usize, 5, 13, 26, 27, 30, 38, 45]);
        let mut found = None;
        for _ in 0..4 {
            if let Some(ex) = excursion(s, &p, n) {
                found = Some(ex);
                break;
            }
        }
        if let Some(ex) = found {
            let mut all = moves.clone();
            all.extend(ex);
            if max_occurrences(start, &all) <= 4 {
                let mut q = p.clone();
                for m in &all[moves.len()..] {
                    q = q.make(*m);
                }
                return Some((all, q));
            }
        }
    }
    // partial cycle: stop 0..3 plies into the next cycle
    let partial = s.weighted(&[10, 15, 15, 60]);
    for m in [a, b, ar].iter().take(partial) {
        if !p.legal_moves().contains(m) {
            break;
        }
        p = p.make(*m);
        moves.push(*m);
    }
    Some((moves, p))
}

/// Out-and-back excursion from `x`: n reversible moves per side, then undone in reverse order,
/// except for the very last undo (which would bring `x` about again).  Verified with the reference.
fn excursion(s: &mut Src, x: &Pos, n: usize) -> Option<Vec<Mv>> {
    let mut out: Vec<Mv> = Vec::new();
    let mut p = x.clone();
    let mut last_from: [Option<u8>; 2] = [None, None];
    for i in 0..2 * n {
        let side = i % 2;
        let prev_other_from = if i > 0 { Some(out[i - 1].from) } else { None };
        let cands: Vec<Mv> = p
            .legal_moves()
            .into_iter()
            .filter(|m| reversible(&p, m) && Some(m.to) != last_from[side] && Some(m.to) != prev_other_from && !p.make(*m).in_check())
            .collect();
        if cands.is_empty() {
            if std::env::var("VERIF_DEBUG").is_ok() { eprintln!("excursion: no candidates at step {} of {}", i, 2*n); }
            return None;
        }
        let m = cands[s.below(cands.len())];
        last_from[side] = Some(m.from);
        p = p.make(m);
        out.push(m);
    }
    // undo: A takes back o_n, B takes back p_n, ..., A takes back o_1 — all but B's p_1
    let mut seq = out.clone();
    let mut undo: Vec<Mv> = Vec::new();
    for i in (0..n).rev() {
        undo.push(out[2 * i]);
        undo.push(out[2 * i + 1]);
    }
    let closing = undo.pop().unwrap();
    for m in undo.iter() {
        let r = Mv { from: m.to, to: m.from, promo: None };
        if !p.legal_moves().contains(&r) {
            if std::env::var("VERIF_DEBUG").is_ok() { eprintln!("excursion: undo {} illegal (n={})", r.uci(), n); }
            return None;
        }
        p = p.make(r);
        seq.push(r);
    }
    // the closing move must bring x about again
    let close = Mv { from: closing.to, to: closing.from, promo: None };
    if !p.legal_moves().contains(&close) || p.make(close) != *x {
        if std::env::var("VERIF_DEBUG").is_ok() { eprintln!("excursion: close fails (n={})", n); }
        return None;
    }
    if std::env::var("VERIF_DEBUG").is_ok() { eprintln!("excursion: ok n={}", n); }
    Some(seq)
}

fn max_occurrences(start: &Pos, moves: &[Mv]) -> usize {
    let mut h = vec![start.clone()];
    let mut p = start.clone();
    for m in moves {
        p = p.make(*m);
        h.push(p.clone());
    }
    let mut keys: Vec<String> = h.iter().map(|x| x.fen4()).collect();
    keys.sort();
    let mut best = 0;
    let mut run = 0;
    for i in 0..keys.len() {
        if i > 0 && keys[i] == keys[i - 1] {
            run += 1;
        } else {
            run = 1;
        }
        best = best.max(run);
    }
    best
}

struct Cmd {
    text: String,
    history: Vec<Pos>,
    last: Pos,
}

fn make_cmd(s: &mut Src, start: &Pos, startpos: bool, moves: &[Mv]) -> Cmd {
    let mut text = if startpos { "position startpos".to_string() } else { {
        let (hw, fw) = (s.below(40) as u32, 1 + s.below(80) as u32);
        let (h, f) = gen::reachable_counters(s, start, hw, fw);
        format!("position fen {}", start.fen(h, f))
    } };
    let mut history = vec![start.clone()];
    let mut p = start.clone();
    if !moves.is_empty() {
        text.push_str(" moves");
        for m in moves {
            text.push(' ');
            text.push_str(&m.uci());
            p = p.make(*m);
            history.push(p.clone());
        }
    }
    Cmd { text, history, last: p }
}

fn count_exact(h: &[Pos], s: &Pos) -> usize {
    h.iter().filter(|x| *x == s).count()
}
fn count_rule(h: &[Pos], s: &Pos) -> usize {
    let k = s.repetition_key();
    h.iter().filter(|x| x.repetition_key() == k).count()
}

/// A generated case: the position commands, the game of the last one (what may count) and, for
/// the bare-command variant, the abandoned game (what must not count).
struct Case {
    cmds: Vec<String>,
    judged_history: Vec<Pos>,
    old_history: Option<Vec<Pos>>,
}

fn check(bytes: &[u8], stats: &mut Stats) -> Verdict {
    match build_case(bytes, false, stats) {
        Some(c) => judge(&c.cmds, &c.judged_history, c.old_history.as_deref(), stats),
        None => Ok(()),
    }
}

fn build_case(bytes: &[u8], deep: bool, stats: &mut Stats) -> Option<Case> {
    let mut s = Src::new(bytes);
    let startpos = s.chance(if deep { 8 } else { 35 });
    let start = if startpos {
        Pos::startpos()
    } else if deep && s.chance(75) {
        // few men: the reference tree of depth 3 stays small and the weaker side looks for the draw
        let n = 1 + s.below(4);
        gen::g_place(&mut s, n)
    } else {
        gen::g_small(&mut s).0
    };
    let built = build_history(&mut s, &start).map(|(mut moves, mut p)| {
        // deep part: often one or two plies OFF the shuffle cycle, so that the positions seen twice
        // lie two or three plies below the root instead of one
        if deep {
            let extra = s.weighted(&[30, 40, 30]);
            for _ in 0..extra {
                let cands: Vec<Mv> = p.legal_moves().into_iter().filter(|m| reversible(&p, m)).collect();
                if cands.is_empty() {
                    break;
                }
                let m = cands[s.below(cands.len())];
                p = p.make(m);
                moves.push(m);
            }
        }
        (moves, p)
    });
    let Some((moves, _)) = built else {
        stats.exclude("no two-sided shuffle available in the generated position");
        return None;
    };
    let last_cmd = make_cmd(&mut s, &start, startpos, &moves);
    let p = last_cmd.last.clone();
    let legal = p.legal_moves();
    if legal.is_empty() {
        stats.exclude("terminal final position");
        return None;
    }
    // optionally an EARLIER position command whose history must not count: the same game but
    // with one more full cycle (more repetitions), or a different game
    let mut cmds: Vec<String> = Vec::new();
    // variant: the game is given first, then the final position again as a bare command (FEN or
    // startpos, no move list): its history is that one position, so nothing has occurred before
    let bare_last = s.chance(20);
    let judged_history: Vec<Pos> = if bare_last { vec![p.clone()] } else { last_cmd.history.clone() };
    if bare_last {
        cmds.push(last_cmd.text.clone());
        stats.class("game_then_bare_position_command");
    } else if s.chance(35) {
        let mut longer: Vec<Mv> = moves.clone();
        // a different, repetition-rich history reaching positions that overlap with this game
        let extra = build_history(&mut s, &start).map(|x| x.0).unwrap_or_default();
        if s.bool() && !extra.is_empty() {
            longer = extra;
        }
        let earlier = make_cmd(&mut s, &start, startpos, &longer);
        cmds.push(earlier.text);
        stats.class("with_earlier_position_command");
    }
    if bare_last {
        if p == Pos::startpos() && s.bool() {
            cmds.push("position startpos".to_string());
        } else {
            let (hw, fw) = (s.below(40) as u32, 1 + s.below(80) as u32);
            let (h, f) = gen::reachable_counters(&mut s, &p, hw, fw);
            cmds.push(format!("position fen {}", p.fen(h, f)));
        }
    } else {
        cmds.push(last_cmd.text.clone());
    }
    let old = if bare_last { Some(last_cmd.history.clone()) } else { None };
    Some(Case { cmds, judged_history, old_history: old })
}

/// The oracle: `cmds` go to a fresh engine followed by `go depth 1`; `judged_history` is the game
/// of the LAST command (its final element is the position searched); `old_history`, if any, is a
/// game given by an earlier command that must not count (used only to classify the case).
pub fn judge(cmds: &[String], judged_history: &[Pos], old_history: Option<&[Pos]>, stats: &mut Stats) -> Verdict {
    judge_on(None, cmds, judged_history, old_history, stats)
}

/// The same oracle on a given engine (part 'veteran': an engine that has searched millions of nodes
/// of OTHER positions before; a search that used any cached result is not judged).
pub fn judge_on(engine: Option<&mut Flounder>, cmds: &[String], judged_history: &[Pos], old_history: Option<&[Pos]>, stats: &mut Stats) -> Verdict {
    let cmds: Vec<String> = cmds.to_vec();
    let p = judged_history.last().unwrap().clone();
    let legal = p.legal_moves();
    if legal.is_empty() {
        stats.exclude("terminal final position");
        return Ok(());
    }
    let bare_last = old_history.is_some();
    // expected value
    let mut rs = RefSearch::new(150_000);
    let mut with_rule = crate::refsearch::LOST;
    let mut without_rule = crate::refsearch::LOST;
    let mut any_draw = false;
    let mut once_decides = false;
    let mut per_move: Vec<Value> = Vec::new();
    let mut ambiguous = false;
    for m in &legal {
        let succ = p.make(*m);
        let n_exact = count_exact(judged_history, &succ);
        let n_rule = count_rule(judged_history, &succ);
        if (n_exact >= 2) != (n_rule >= 2) {
            ambiguous = true;
        }
        let q = match rs.q(&succ) {
            Ok(v) => neg(v),
            Err(_) => {
                stats.exclude("reference quiescence over the node cap");
                return Ok(());
            }
        };
        let draw = n_rule >= 2;
        let val = if draw { 0 } else { q };
        any_draw |= draw;
        if val > with_rule {
            with_rule = val;
        }
        if q > without_rule {
            without_rule = q;
        }
        per_move.push(json!({"move": m.uci(), "earlier_occurrences": n_rule, "real_value": show(q), "counts_as": show(val)}));
        if n_rule == 1 && q != 0 {
            once_decides = true;
        }
    }
    if ambiguous {
        stats.exclude("occurrence count depends on the ep convention (not judged)");
        return Ok(());
    }
    // the engine: fresh process image (or the given veteran), position command(s), go depth 1
    let mut fresh;
    let veteran = engine.is_some();
    let fl: &mut Flounder = match engine {
        Some(e) => e,
        None => {
            fresh = Flounder::new();
            &mut fresh
        }
    };
    let interruptions: Vec<(u8, u64)> = INTERRUPTIONS.with(|i| i.borrow().clone());
    let veteran = veteran || !interruptions.is_empty();
    let mut hits_before = fl.verif_searcher().verif.tt_hits.get();
    let r = std::panic::catch_unwind(std::panic::AssertUnwindSafe(|| {
        for c in &cmds {
            fl.verif_handle_command(c);
        }
        // searches of the same position cut off by their (node) deadline, no position command in
        // between: what they leave behind must not change what the judged search concludes
        for (d, k) in &interruptions {
            let sr = fl.verif_searcher();
            sr.verif_set_node_limit(Some(*k));
            sr.verif_set_hard_cap(Some(*k + 3_000_000));
            fl.verif_handle_command(&format!("go depth {}", d));
            fl.verif_searcher().verif_set_node_limit(None);
        }
        hits_before = fl.verif_searcher().verif.tt_hits.get();
        let hist_len = fl.verif_searcher().verif_repetition_snapshot().len();
        // query-level localiser (not a verdict): the predicate negamax evaluates at ply 1
        let mut q_flags = Vec::new();
        for m in &legal {
            let b = eng::to_board(&p.make(*m));
            q_flags.push(fl.verif_searcher().verif_is_repetition_draw(&b));
        }
        fl.verif_searcher().verif_set_hard_cap(Some(3_000_000));
        fl.verif_handle_command("go depth 1");
        let infos = fl.verif_searcher().verif_timer().verif.infos.borrow().clone();
        (hist_len, q_flags, infos)
    }));
    let (hist_len, q_flags, infos) = match r {
        Ok(x) => x,
        Err(pn) => {
            let msg = crate::panic_text(&pn);
            if msg.contains("node hard cap") {
                stats.exclude("engine search over the node watchdog");
                return Ok(());
            }
            return Err(Failure::new("command-panic", json!({"commands": cmds, "panic": msg})));
        }
    };
    stats.eval();
    if veteran && fl.verif_searcher().verif.tt_hits.get() != hits_before {
        stats.exclude("the judged search used a result cached by an earlier search on the same engine (not judged)");
        return Ok(());
    }
    let Some((_, score, _, mv)) = infos.iter().find(|i| i.0 == 1).copied() else {
        return Err(Failure::new("no-depth-1-info", json!({"commands": cmds})));
    };
    let got = class(score);
    let discriminating = with_rule != without_rule;
    if got != with_rule {
        let query_all_false = legal.iter().zip(q_flags.iter()).all(|(m, f)| !(count_rule(judged_history, &p.make(*m)) >= 2 && *f));
        let sig = if got == without_rule && any_draw && query_all_false && hist_len == 0 {
            "history-not-recorded"
        } else if got == without_rule && any_draw {
            "third-occurrence-not-scored-as-draw"
        } else {
            "wrong-depth-1-value-with-history"
        };
        return Err(Failure::new(
            sig,
            json!({"commands": cmds, "final_position": p.fen4(), "engine_depth1_score": score, "engine_move": mv.map(|m| m.to_algebraic()),
                   "expected_with_draw_rule": show(with_rule), "value_without_draw_rule": show(without_rule), "successors": per_move,
                   "engine_history_entries_after_position_command": hist_len, "engine_repetition_query_per_successor": q_flags}),
        ));
    }
    if any_draw {
        stats.class("has_successor_seen_twice_or_more");
    }
    if judged_history.len() > 301 {
        stats.class("history_longer_than_300_plies");
    }
    if judged_history.len() > 101 {
        stats.class("history_longer_than_100_plies");
        let oldest = legal.iter().filter_map(|m| { let sx = p.make(*m); judged_history.iter().rposition(|h| *h == sx).map(|i| judged_history.len() - i) }).max();
        if let Some(o) = oldest { if o > 100 { stats.class("repeated_successor_last_seen_more_than_100_plies_ago"); } }
    }
    if discriminating {
        stats.class("discriminating_draw_rule_changes_value");
    }
    if once_decides {
        stats.class("has_successor_seen_once_with_nonzero_value");
    }
    if bare_last {
        // non-trivial when the abandoned history would have changed the value
        let mut with_old = crate::refsearch::LOST;
        for m in &legal {
            let succ = p.make(*m);
            let q = rs.q(&succ).map(neg).unwrap_or(0);
            let v = if count_rule(old_history.unwrap_or(judged_history), &succ) >= 2 { 0 } else { q };
            with_old = with_old.max(v);
        }
        if with_old != with_rule {
            stats.class("bare_command_discriminates_(old_history_would_change_the_value)");
            stats.nontrivial(&cmds);
        }
    } else if discriminating || (once_decides && with_rule != 0) {
        stats.nontrivial(&cmds);
    }
    stats.sample(|| json!({"commands": cmds.iter().map(|c| if c.len() > 300 { format!("{}…", &c[..300]) } else { c.clone() }).collect::<Vec<_>>(), "expected": show(with_rule), "without_rule": show(without_rule), "engine": score}));
    Ok(())
}

/// The deeper oracle: `cmds` go to a fresh engine followed by `go depth d` (d = 2..3); every
/// completed iteration i <= d must report V_h(P, i): plain minimax over the reference rules in which
/// every position BELOW the root that has already occurred twice in the judged history is worth 0
/// (before anything else is asked about it), leaves by the reference quiescence.  With d <= 3 no
/// position can recur inside the searched line itself, so the game history alone decides.
pub fn judge_deep(cmds: &[String], judged_history: &[Pos], old_history: Option<&[Pos]>, depth: u8, stats: &mut Stats) -> Verdict {
    use std::collections::HashSet;
    let cmds: Vec<String> = cmds.to_vec();
    let p = judged_history.last().unwrap().clone();
    if p.legal_moves().is_empty() {
        stats.exclude("terminal final position");
        return Ok(());
    }
    let sets = |h: &[Pos]| {
        let keys: Vec<_> = h.iter().map(|x| x.repetition_key()).collect();
        let mut exact: HashSet<Pos> = HashSet::new();
        let mut byrule: Vec<(Pos, Option<u8>)> = Vec::new();
        for (i, x) in h.iter().enumerate() {
            if h.iter().filter(|y| *y == x).count() >= 2 {
                exact.insert(x.clone());
            }
            if keys.iter().filter(|k| **k == keys[i]).count() >= 2 && !keys[..i].contains(&keys[i]) {
                byrule.push((x.clone(), keys[i].3));
            }
        }
        (exact, byrule)
    };
    let (exact, byrule) = sets(judged_history);
    let any_draw_position = !byrule.is_empty();
    let mut rs = RefSearch::new(400_000);
    // values of the iterations 1..=depth under one rule
    let values = |rs: &mut RefSearch, exact: Option<&HashSet<Pos>>, keys: Option<&Vec<(Pos, Option<u8>)>>, first_only: bool| -> Option<Vec<i32>> {
        rs.clear_v();
        rs.draw_positions = exact.cloned();
        rs.draw_keys = keys.cloned();
        rs.draw_first_ply_only = first_only;
        let mut out = Vec::new();
        for i in 1..=depth {
            match rs.v(&p, i) {
                Ok(v) => out.push(v),
                Err(_) => return None,
            }
        }
        Some(out)
    };
    let Some(v_rule) = values(&mut rs, None, Some(&byrule), false) else {
        stats.exclude("reference tree over the node cap");
        return Ok(());
    };
    let (Some(v_exact), Some(v_none), Some(v_first)) = (values(&mut rs, Some(&exact), None, false), values(&mut rs, None, None, false), values(&mut rs, None, Some(&byrule), true)) else {
        stats.exclude("reference tree over the node cap");
        return Ok(());
    };
    if v_rule != v_exact {
        stats.exclude("value depends on the ep convention of position identity (not judged)");
        return Ok(());
    }
    let mut fl = Flounder::new();
    let r = std::panic::catch_unwind(std::panic::AssertUnwindSafe(|| {
        for c in &cmds {
            fl.verif_handle_command(c);
        }
        // part 'interrupted': searches of the same position cut off by their (node) deadline first,
        // no position command in between.  What they cached is true for this very history, so only a
        // DEEPER cached result makes the judged values ambiguous (excluded below)
        for (d, k) in INTERRUPTIONS.with(|i| i.borrow().clone()) {
            let sr = fl.verif_searcher();
            sr.verif_set_node_limit(Some(k));
            sr.verif_set_hard_cap(Some(k + 3_000_000));
            fl.verif_handle_command(&format!("go depth {}", d));
            fl.verif_searcher().verif_set_node_limit(None);
        }
        let deeper0 = fl.verif_searcher().verif.tt_deeper_hits.get();
        let hist_len = fl.verif_searcher().verif_repetition_snapshot().len();
        fl.verif_searcher().verif_set_hard_cap(Some(6_000_000));
        fl.verif_handle_command(&format!("go depth {}", depth));
        let infos = fl.verif_searcher().verif_timer().verif.infos.borrow().clone();
        let deeper = fl.verif_searcher().verif.tt_deeper_hits.get() - deeper0;
        (hist_len, infos, deeper)
    }));
    let (hist_len, infos, deeper) = match r {
        Ok(x) => x,
        Err(pn) => {
            let msg = crate::panic_text(&pn);
            if msg.contains("node hard cap") {
                stats.exclude("engine search over the node watchdog");
                return Ok(());
            }
            return Err(Failure::new("command-panic", json!({"commands": cmds, "panic": msg})));
        }
    };
    stats.eval();
    if deeper > 0 {
        stats.exclude("deeper cached result reused (engine legitimately reports a deeper value)");
        return Ok(());
    }
    for i in 1..=depth {
        let Some((_, score, _, mv)) = infos.iter().find(|x| x.0 == i).copied() else {
            return Err(Failure::new("no-info-for-a-completed-iteration", json!({"commands": cmds, "depth": depth, "iteration": i})));
        };
        let got = class(score);
        let k = (i - 1) as usize;
        if got != v_rule[k] {
            let sig = if i == 1 {
                "wrong-depth-1-value-with-history"
            } else if got == v_none[k] && v_none[k] != v_rule[k] {
                "third-occurrence-inside-the-tree-not-scored-as-draw"
            } else if got == v_first[k] && v_first[k] != v_rule[k] {
                "third-occurrence-deeper-than-one-ply-not-scored-as-draw"
            } else {
                "wrong-value-with-history-at-depth-2-or-more"
            };
            return Err(Failure::new(
                sig,
                json!({"commands": cmds, "go_depth": depth, "final_position": p.fen4(), "iteration": i, "engine_score": score, "engine_move": mv.map(|m| m.to_algebraic()),
                       "expected_with_draw_rule": show(v_rule[k]), "value_without_draw_rule": show(v_none[k]), "value_with_the_rule_one_ply_below_the_root_only": show(v_first[k]),
                       "positions_seen_twice_or_more_in_the_history": byrule.len(), "engine_history_entries_after_position_command": hist_len,
                       "replay": {"go_depth": depth}}),
            ));
        }
    }
    let k = (depth - 1) as usize;
    stats.class(&format!("deep_depth_{}", depth));
    if any_draw_position {
        stats.class("deep_history_has_a_position_seen_twice_or_more");
    }
    if v_rule[k] != v_none[k] {
        stats.class("deep_draw_rule_changes_the_value");
    }
    if old_history.is_some() {
        let (_, old_keys) = sets(old_history.unwrap());
        if let Some(v_old) = values(&mut rs, None, Some(&old_keys), false) {
            if v_old[k] != v_rule[k] {
                stats.class("deep_bare_command_discriminates_(old_history_would_change_the_value)");
                stats.nontrivial(&(&cmds, depth));
            }
        }
    }
    if v_rule[k] != v_first[k] {
        stats.class("deep_draw_two_or_more_plies_below_the_root_decides");
        stats.nontrivial(&(&cmds, depth));
    }
    stats.sample(|| json!({"part": "deep", "go_depth": depth, "commands": cmds.iter().map(|c| if c.len() > 300 { format!("{}…", &c[..300]) } else { c.clone() }).collect::<Vec<_>>(),
        "expected_per_iteration": v_rule.iter().map(|v| show(*v)).collect::<Vec<_>>(), "without_rule": v_none.iter().map(|v| show(*v)).collect::<Vec<_>>(),
        "rule_at_first_ply_only": v_first.iter().map(|v| show(*v)).collect::<Vec<_>>()}));
    Ok(())
}

/// Part 'interrupted': position command(s), then 1..3 searches of that position cut off by a node
/// deadline (mostly inside their first iterations), then — with no position command in between —
/// the judged `go depth 1`.
fn check_interrupted(bytes: &[u8], stats: &mut Stats) -> Verdict {
    let mut s = Src::new(bytes);
    let n = 1 + s.below(3);
    let ints: Vec<(u8, u64)> = (0..n).map(|_| (2 + s.below(3) as u8, match s.below(4) { 0 => 1 + s.below(6) as u64, 1 | 2 => 2 + s.below(60) as u64, _ => 20 + s.below(600) as u64 })).collect();
    // half of the cases: the judged search goes deeper (2..3) than the cut searches got, so that it
    // really searches the root again instead of answering from the root entry they cached
    let deep = s.bool();
    let depth = 2 + s.below(2) as u8;
    let Some(c) = build_case(&bytes[bytes.len().min(8)..], deep, stats) else { return Ok(()) };
    let small = c.judged_history.last().map(|p| p.men()).unwrap_or(32) <= 12;
    let (deep, depth) = (deep && (small || depth == 2), if small { depth } else { 2 });
    let ints: Vec<(u8, u64)> = if deep { ints.iter().map(|(d, k)| ((*d).min(depth + 1), 3 + (*k % 400))).collect() } else { ints };
    INTERRUPTIONS.with(|i| *i.borrow_mut() = ints.clone());
    let r = if deep { judge_deep(&c.cmds, &c.judged_history, c.old_history.as_deref(), depth, stats) } else { judge(&c.cmds, &c.judged_history, c.old_history.as_deref(), stats) };
    INTERRUPTIONS.with(|i| i.borrow_mut().clear());
    if deep && r.is_ok() {
        stats.class("judged_at_depth_2_3_after_interrupted_searches_of_the_same_position");
    }
    match r {
        Ok(()) => {
            stats.class("judged_after_interrupted_searches_of_the_same_position");
            Ok(())
        }
        Err(mut f) => {
            f.detail["searches_cut_off_before_the_judged_go_(depth,node_deadline)"] = json!(ints);
            f.detail["replay"] = if deep { json!({"interruptions": ints, "go_depth": depth}) } else { json!({"interruptions": ints}) };
            f.sig = format!("{}-after-interrupted-searches", f.sig);
            Err(f)
        }
    }
}

fn check_deep(bytes: &[u8], stats: &mut Stats) -> Verdict {
    let depth = 2 + (bytes.first().copied().unwrap_or(0) % 2);
    let case = build_case(bytes.get(1..).unwrap_or(&[]), true, stats);
    // depth 3 only where the plain minimax reference stays affordable
    let depth = match &case {
        Some(c) if c.judged_history.last().map(|p| p.men()).unwrap_or(32) > 12 => 2,
        _ => depth,
    };
    match case {
        Some(c) => judge_deep(&c.cmds, &c.judged_history, c.old_history.as_deref(), depth, stats),
        None => Ok(()),
    }
}

/// Part 'veteran': the depth-1 oracle on an engine that keeps searching heavy middlegame positions
/// in between (chunks of about a million nodes each, ended by a node deadline), so that its tables
/// grow to hundreds of thousands of entries; after every chunk one C09 case (few men: nothing the
/// heavy searches can have cached) is judged.  Whatever the engine does when its tables pass some
/// size must not touch the game history given by the position command.
fn part_veteran(bytes: &[u8], stats: &mut Stats) -> Verdict {
    let mut s = Src::new(bytes);
    let rounds = VETERAN_ROUNDS.with(|c| c.get());
    let chunk = 1_400_000u64;
    let mut fl = Flounder::new();
    let mut heavy_log: Vec<Value> = Vec::new();
    let mut total_nodes = 0u64;
    for round in 0..rounds {
        // heavy chunk: the start position after 0..6 random plies, searched until the node deadline
        let mut p = Pos::startpos();
        let mut text = String::from("position startpos");
        let plies = s.below(7);
        for i in 0..plies {
            let legal = p.legal_moves();
            let Some(m) = gen::choose_move(&mut s, &p, &legal) else { break };
            text.push_str(if i == 0 { " moves " } else { " " });
            text.push_str(&m.uci());
            p = p.make(m);
        }
        if p.legal_moves().is_empty() {
            continue;
        }
        let r = std::panic::catch_unwind(std::panic::AssertUnwindSafe(|| {
            fl.verif_handle_command(&text);
            let sr = fl.verif_searcher();
            sr.verif_set_node_limit(Some(chunk));
            sr.verif_set_hard_cap(Some(chunk + 3_000_000));
            fl.verif_handle_command("go depth 12");
            let sr = fl.verif_searcher();
            sr.verif_set_node_limit(None);
            sr.verif_nodes()
        }));
        match r {
            Ok(n) => total_nodes += n,
            Err(pn) => return Err(Failure::new("command-panic", json!({"heavy_searches": heavy_log, "command": text, "panic": crate::panic_text(&pn)}))),
        }
        heavy_log.push(json!({"position": text, "node_deadline": chunk}));
        let entries = fl.verif_searcher().verif_tt_entries().len();
        stats.maximum("veteran_table_entries_when_a_case_was_judged", entries as i64);
        stats.maximum("veteran_nodes_searched_before_a_case", total_nodes as i64);
        // one C09 case on the veteran
        let Some(c) = build_case(&bytes[(round * 37) % bytes.len().max(1)..], true, stats) else { continue };
        if c.judged_history.last().map(|p| p.men()).unwrap_or(32) > 10 {
            stats.exclude("veteran: generated case has too many men to be disjoint from the heavy searches");
            continue;
        }
        if let Err(mut f) = judge_on(Some(&mut fl), &c.cmds, &c.judged_history, c.old_history.as_deref(), stats) {
            f.detail["engine_had_searched_before"] = json!(heavy_log);
            f.detail["table_entries_before_the_case"] = json!(entries);
            f.sig = format!("{}-on-an-engine-with-full-tables", f.sig);
            return Err(f);
        }
        stats.class("veteran_cases_judged_after_heavy_searches");
        stats.class(match entries {
            0..=99_999 => "veteran_case_with_under_100k_table_entries",
            100_000..=299_999 => "veteran_case_with_100k_300k_table_entries",
            300_000..=599_999 => "veteran_case_with_300k_600k_table_entries",
            _ => "veteran_case_with_over_600k_table_entries",
        });
    }
    Ok(())
}

thread_local! {
    /// node deadlines of searches to be interrupted between the position command(s) and the judged
    /// go (part 'interrupted'); empty elsewhere
    static INTERRUPTIONS: std::cell::RefCell<Vec<(u8, u64)>> = std::cell::RefCell::new(Vec::new());
}

thread_local! {
    static VETERAN_ROUNDS: std::cell::Cell<usize> = std::cell::Cell::new(9);
}

/// Enumerated part 'two-components': histories in which a position comes back differing from its
/// first occurrence in TWO components of the position at once — the en-passant square has vanished
/// AND a castling right has been lost in the same shuffle — so that the two are different positions
/// by any reading of the rules, and the later one has occurred one time fewer than an identity that
/// confuses the two would count.  Every file of the double push x every rook/king shuffle of the
/// side that answers x every rook/king shuffle of the side that pushed, either colour pushing.
/// The final position is one move before the second (not third) occurrence: its value must be the
/// real one.
fn two_component_cases() -> Vec<(String, Vec<Pos>)> {
    // the side that answers the push has a bishop more: at the end the pusher is to move and stands
    // worse, so a draw wrongly seen in the move that completes the shuffle would raise its value
    let bases: Vec<Pos> = ["r1b1k2r/pppppppp/8/8/8/8/PPPPPPPP/R3K2R w KQkq - 0 1", "rnb1k2r/pppppppp/8/8/8/8/PPPPPPPP/R3K2R w KQkq - 0 1", "r1b1k2r/pppppppp/8/8/8/8/PPPPPPPP/RN2K2R w KQkq - 0 1", "rnb1k2r/pppppppp/8/8/8/8/PPPPPPPP/RN2K2R w KQkq - 0 1"]
        .iter()
        .map(|f| Pos::from_fen(f).unwrap().0)
        .collect();
    // shuffles of the side that answers the push (black in the unmirrored game) and of the pusher:
    // rook and king shuffles lose rights, the knight shuffle loses none
    let answer = [("h8g8", "g8h8"), ("a8b8", "b8a8"), ("e8d8", "d8e8"), ("e8f8", "f8e8"), ("b8c6", "c6b8")];
    let pusher = [("h1g1", "g1h1"), ("a1b1", "b1a1"), ("e1d1", "d1e1"), ("e1f1", "f1e1"), ("b1c3", "c3b1")];
    let flip = |m: &str| -> String {
        let b = m.as_bytes();
        let fr = |c: u8| (b'1' + (7 - (c - b'1'))) as char;
        format!("{}{}{}{}", b[0] as char, fr(b[1]), b[2] as char, fr(b[3]))
    };
    let mut out = Vec::new();
    // variant without the double push (file 8): the position comes back differing in castling
    // rights ONLY — one, two, three or four of them at once; there the extra bishop is the pusher's,
    // so that the side to move at the end again stands worse
    let bases_nopush: Vec<Pos> = ["r3k2r/pppppppp/8/8/8/8/PPPPPPPP/R1B1K2R w KQkq - 0 1", "rn2k2r/pppppppp/8/8/8/8/PPPPPPPP/R1B1K2R w KQkq - 0 1", "r3k2r/pppppppp/8/8/8/8/PPPPPPPP/RNB1K2R w KQkq - 0 1", "rn2k2r/pppppppp/8/8/8/8/PPPPPPPP/RNB1K2R w KQkq - 0 1"]
        .iter()
        .map(|f| Pos::from_fen(f).unwrap().0)
        .collect();
    for (bi, base0) in bases.iter().enumerate() {
    for mirrored in [false, true] {
        for file in 0..9u8 {
            let base = if file == 8 { &bases_nopush[bi] } else { base0 };
            for (a, ar) in answer {
                for (b, br) in pusher {
                    let push = format!("{}2{}4", (b'a' + file.min(7)) as char, (b'a' + file.min(7)) as char);
                    let mut moves: Vec<String> = if file == 8 { vec![] } else { vec![push] };
                    // without the push the pusher's side starts the shuffle
                    let (a, ar, b, br) = if file == 8 { (b, br, a, ar) } else { (a, ar, b, br) };
                    for _ in 0..1 {
                        moves.extend([a, b, ar, br].iter().map(|x| x.to_string()));
                    }
                    moves.extend([a, b, ar].iter().map(|x| x.to_string()));
                    let (start, moves) = if mirrored { (base.mirror(), moves.iter().map(|m| flip(m)).collect::<Vec<_>>()) } else { (base.clone(), moves) };
                    let mut hist = vec![start.clone()];
                    let mut p = start.clone();
                    let mut ok = true;
                    for m in &moves {
                        match p.find_uci(m) {
                            Some(mv) => {
                                p = p.make(mv);
                                hist.push(p.clone());
                            }
                            None => {
                                ok = false;
                                break;
                            }
                        }
                    }
                    if ok {
                        out.push((format!("position fen {} moves {}", start.fen(0, 1), moves.join(" ")), hist));
                    }
                }
            }
        }
    }
    }
    out.sort_by(|x, y| x.0.cmp(&y.0));
    out.dedup_by(|x, y| x.0 == y.0);
    out
}

pub fn run(tier: Tier, seed: u64, known: &Known) -> PropRun {
    let mut run = PropRun::new("exploration", RULE);
    run.assumptions = vec![
        "depth-1 value = max over root moves of the negated quiescence value of the successor (reference as in C05), repetition checked only below the root".into(),
        "successors whose occurrence count depends on whether an uncapturable ep square distinguishes positions are excluded (the statement does not fix that convention)".into(),
    ];
    let part = Part { name: "histories", cases: tier.pick(5_000, 200_000), min_len: 24, max_len: 600, max_shrink: 300, threads: threads() };
    let (st, fl) = run_part(&part, seed, known, check);
    run.stats.merge(st);
    run.failure = fl;
    if run.failure.is_none() {
        let part = Part { name: "interrupted", cases: tier.pick(1_500, 20_000), min_len: 32, max_len: 600, max_shrink: 200, threads: threads() };
        let (st, fl) = run_part(&part, seed, known, check_interrupted);
        run.stats.merge(st);
        run.failure = fl;
    }
    if run.failure.is_none() {
        let cases = two_component_cases();
        run.stats.class_n("two_component_histories_enumerated", cases.len() as u64);
        let (st, fl) = crate::runner::run_enumerated("two-components", &cases, threads(), seed, known, |c, st| {
            st.class("two_component_history_judged");
            judge(&[c.0.clone()], &c.1, None, st)
        });
        run.stats.merge(st);
        run.failure = fl;
    }
    if run.failure.is_none() {
        let part = Part { name: "deep", cases: tier.pick(1_400, 20_000), min_len: 24, max_len: 600, max_shrink: 200, threads: threads() };
        let (st, fl) = run_part(&part, seed, known, check_deep);
        run.stats.merge(st);
        run.failure = fl;
    }
    if run.failure.is_none() {
        let rounds = tier.pick(9usize, 40usize);
        let part = Part { name: "veteran", cases: tier.pick(16, 64), min_len: 400, max_len: 800, max_shrink: 0, threads: threads() };
        let (st, fl) = run_part(&part, seed, known, |b, st| {
            VETERAN_ROUNDS.with(|c| c.set(rounds));
            part_veteran(b, st)
        });
        run.stats.merge(st);
        run.failure = fl;
    }
    run
}

pub fn replay(part: &str, bytes: &[u8], case: &Value, stats: &mut Stats) -> Verdict {
    // a case of the part 'veteran' is its whole history of heavy searches: replayed from its bytes,
    // as many rounds as the failing run had made
    if let Some(h) = case.get("engine_had_searched_before").and_then(|x| x.as_array()) {
        if !bytes.is_empty() {
            VETERAN_ROUNDS.with(|c| c.set(h.len().max(1)));
            return part_veteran(bytes, stats);
        }
    }
    if let Some(cmds) = case.get("commands").and_then(|x| x.as_array()) {
        let cmds: Vec<String> = cmds.iter().filter_map(|c| c.as_str().map(|s| s.to_string())).collect();
        if let Some(last) = cmds.last() {
            if let Ok(game) = crate::script::ref_position(last) {
                let deep = case.get("go_depth").or_else(|| case.get("replay").and_then(|r| r.get("go_depth"))).and_then(|d| d.as_u64());
                if let Some(ints) = case.get("replay").and_then(|r| r.get("interruptions")).and_then(|x| x.as_array()) {
                    let v: Vec<(u8, u64)> = ints.iter().filter_map(|p| Some((p.get(0)?.as_u64()? as u8, p.get(1)?.as_u64()?))).collect();
                    INTERRUPTIONS.with(|i| *i.borrow_mut() = v);
                    let r = match deep {
                        Some(d) => judge_deep(&cmds, &game, None, d as u8, stats),
                        None => judge(&cmds, &game, None, stats),
                    };
                    INTERRUPTIONS.with(|i| i.borrow_mut().clear());
                    return r;
                }
                if let Some(d) = deep {
                    return judge_deep(&cmds, &game, None, d as u8, stats);
                }
                if let Some(ints) = case.get("replay").and_then(|r| r.get("interruptions")).and_then(|x| x.as_array()) {
                    let v: Vec<(u8, u64)> = ints.iter().filter_map(|p| Some((p.get(0)?.as_u64()? as u8, p.get(1)?.as_u64()?))).collect();
                    INTERRUPTIONS.with(|i| *i.borrow_mut() = v);
                    let r = judge(&cmds, &game, None, stats);
                    INTERRUPTIONS.with(|i| i.borrow_mut().clear());
                    return r;
                }
                return judge(&cmds, &game, None, stats);
            }
        }
    }
    if part == "deep" {
        return check_deep(bytes, stats);
    }
    if part == "interrupted" {
        return check_interrupted(bytes, stats);
    }
    if part == "veteran" {
        VETERAN_ROUNDS.with(|c| c.set(40));
        return part_veteran(bytes, stats);
    }
    check(bytes, stats)
}

/// Byte-level entry for the fuzz target.
pub fn fuzz_entry(bytes: &[u8]) -> Verdict {
    let mut st = Stats::new();
    if bytes.first().map(|b| b & 0x80 != 0).unwrap_or(false) {
        check_deep(bytes, &mut st)
    } else {
        check(bytes, &mut st)
    }
}
