//! C09 — third occurrence of a position in the game is scored as a draw.

use crate::eng;
use crate::gen;
use crate::props::threads;
use crate::refsearch::{class, neg, show, RefSearch};
use crate::runner::{run_part, Failure, Known, Part, Verdict};
use crate::src::Src;
use crate::stats::Stats;
use crate::{PropRun, Tier};
use flsrc::uci::Flounder;
use refchess::{Kind, Mv, Pos};
use serde_json::{json, Value};

pub const RULE: &str = "game histories with controlled multiplicities: from startpos or a generated valid FEN, a random prefix, then shuffle cycles (both sides move a man out and back, 0..3 full cycles, knight/king/rook/bishop/queen shuffles, with and without lost castling rights, vanished ep squares or an intervening irreversible move) and a partial cycle, so that the candidate successors of the final position P have 0, 1, 2 or >=3 earlier occurrences; 1..2 position commands on a fresh engine (only the last one's history may count; in a fifth of the cases the game is given first and then its final position again as a bare 'position fen …' / 'position startpos' without moves, whose history is that single position). Oracle (value level, through the real command path): 'position ...' then 'go depth 1'; the score of the completed depth-1 iteration must equal max over legal m of ( n(m) >= 2 ? 0 : -Q(P·m) ), Q = reference quiescence value, n(m) = occurrences of P·m in the most recent command's history. Successors whose count differs between the rule-book identity (ep only if capturable) and the exact-field identity are not judged. Non-trivial = the case discriminates (value with the draw rule != value without it, or a successor seen exactly once keeps its real non-zero value while deciding the maximum) ; distinct by command text.";

pub fn reversible(p: &Pos, m: &Mv) -> bool {
    let i = p.info(*m);
    let k = p.sq[m.from as usize].unwrap().1;
    !i.capture && !i.castle && !i.promo && k != Kind::P
}

/// One out-and-back cycle (a, b, a', b') of reversible moves from `x`, if there is one: the
/// placement, side to move and castling rights come back, an en-passant right does not.
pub fn one_cycle(s: &mut Src, x: &Pos) -> Option<[Mv; 4]> {
    let la: Vec<Mv> = x.legal_moves().into_iter().filter(|m| reversible(x, m)).collect();
    if la.is_empty() {
        return None;
    }
    let a = la[s.below(la.len())];
    let x1 = x.make(a);
    let lb: Vec<Mv> = x1.legal_moves().into_iter().filter(|m| reversible(&x1, m) && m.to != a.from).collect();
    if lb.is_empty() {
        return None;
    }
    let b = lb[s.below(lb.len())];
    let x2 = x1.make(b);
    let ar = Mv { from: a.to, to: a.from, promo: None };
    if !x2.legal_moves().contains(&ar) {
        return None;
    }
    let x3 = x2.make(ar);
    let br = Mv { from: b.to, to: b.from, promo: None };
    if !x3.legal_moves().contains(&br) {
        return None;
    }
    Some([a, b, ar, br])
}

/// Builds the move list: prefix + cycles*(a,b,a',b') + (a,b,a').  Returns moves and the would-be
/// closing move b'.
pub fn build_history(s: &mut Src, start: &Pos) -> Option<(Vec<Mv>, Pos)> {
    let prefix = gen::ply_count(s, 40);
    let (steps, x) = gen::playout(s, start, prefix);
    let mut moves: Vec<Mv> = steps.iter().map(|t| t.1).collect();
    let la: Vec<Mv> = x.legal_moves().into_iter().filter(|m| reversible(&x, m)).collect();
    if la.is_empty() {
        return None;
    }
    let a = la[s.below(la.len())];
    let x1 = x.make(a);
    let lb: Vec<Mv> = x1.legal_moves().into_iter().filter(|m| reversible(&x1, m) && m.to != a.from).collect();
    if lb.is_empty() {
        return None;
    }
    let b = lb[s.below(lb.len())];
    let x2 = x1.make(b);
    let ar = Mv { from: a.to, to: a.from, promo: None };
    if !x2.legal_moves().contains(&ar) {
        return None;
    }
    let x3 = x2.make(ar);
    let br = Mv { from: b.to, to: b.from, promo: None };
    if !x3.legal_moves().contains(&br) {
        return None;
    }
    let cycles = s.weighted(&[15, 40, 30, 15]);
    let mut p = x.clone();
    for c in 0..cycles {
        for m in [a, b, ar, br] {
            if !p.legal_moves().contains(&m) {
                return None;
            }
            p = p.make(m);
            moves.push(m);
        }
        // sometimes an irreversible move between cycles (resets what can recur)
        if c + 1 < cycles && s.chance(12) {
            let irr: Vec<Mv> = p.legal_moves().into_iter().filter(|m| !reversible(&p, m) && !p.info(*m).capture).collect();
            if !irr.is_empty() {
                let m1 = irr[s.below(irr.len())];
                let q = p.make(m1);
                let l2 = q.legal_moves();
                if !l2.is_empty() {
                    let m2 = l2[s.below(l2.len())];
                    moves.push(m1);
                    moves.push(m2);
                    p = q.make(m2);
                }
            }
        }
    }
    // long reversible excursion (out and back, 4n-1 plies): the earlier occurrences become OLD —
    // up to ~180 plies before the root, still inside what the 75-move rule allows
    if cycles >= 1 && s.chance(35) {
        let n = *s.pick(&[2usize, 5, 13, 26, 27, 30, 38, 45]);
        let mut found = None;
        for _ in 0..4 {
            if let Some(ex) = excursion(s, &p, n) {
                found = Some(ex);
                break;
            }
        }
        if let Some(ex) = found {
            let mut all = moves.clone();
            all.extend(ex);
            if max_occurrences(start, &all) <= 4 {
                let mut q = p.clone();
                for m in &all[moves.len()..] {
                    q = q.make(*m);
                }
                return Some((all, q));
            }
        }
    }
    // partial cycle: stop 0..3 plies into the next cycle
    let partial = s.weighted(&[10, 15, 15, 60]);
    for m in [a, b, ar].iter().take(partial) {
        if !p.legal_moves().contains(m) {
            break;
        }
        p = p.make(*m);
        moves.push(*m);
    }
    Some((moves, p))
}

/// Out-and-back excursion from `x`: n reversible moves per side, then undone in reverse order,
/// except for the very last undo (which would bring `x` about again).  Verified with the reference.
fn excursion(s: &mut Src, x: &Pos, n: usize) -> Option<Vec<Mv>> {
    let mut out: Vec<Mv> = Vec::new();
    let mut p = x.clone();
    let mut last_from: [Option<u8>; 2] = [None, None];
    for i in 0..2 * n {
        let side = i % 2;
        let prev_other_from = if i > 0 { Some(out[i - 1].from) } else { None };
        let cands: Vec<Mv> = p
            .legal_moves()
            .into_iter()
            .filter(|m| reversible(&p, m) && Some(m.to) != last_from[side] && Some(m.to) != prev_other_from && !p.make(*m).in_check())
            .collect();
        if cands.is_empty() {
            if std::env::var("VERIF_DEBUG").is_ok() { eprintln!("excursion: no candidates at step {} of {}", i, 2*n); }
            return None;
        }
        let m = cands[s.below(cands.len())];
        last_from[side] = Some(m.from);
        p = p.make(m);
        out.push(m);
    }
    // undo: A takes back o_n, B takes back p_n, ..., A takes back o_1 — all but B's p_1
    let mut seq = out.clone();
    let mut undo: Vec<Mv> = Vec::new();
    for i in (0..n).rev() {
        undo.push(out[2 * i]);
        undo.push(out[2 * i + 1]);
    }
    let closing = undo.pop().unwrap();
    for m in undo.iter() {
        let r = Mv { from: m.to, to: m.from, promo: None };
        if !p.legal_moves().contains(&r) {
            if std::env::var("VERIF_DEBUG").is_ok() { eprintln!("excursion: undo {} illegal (n={})", r.uci(), n); }
            return None;
        }
        p = p.make(r);
        seq.push(r);
    }
    // the closing move must bring x about again
    let close = Mv { from: closing.to, to: closing.from, promo: None };
    if !p.legal_moves().contains(&close) || p.make(close) != *x {
        if std::env::var("VERIF_DEBUG").is_ok() { eprintln!("excursion: close fails (n={})", n); }
        return None;
    }
    if std::env::var("VERIF_DEBUG").is_ok() { eprintln!("excursion: ok n={}", n); }
    Some(seq)
}

fn max_occurrences(start: &Pos, moves: &[Mv]) -> usize {
    let mut h = vec![start.clone()];
    let mut p = start.clone();
    for m in moves {
        p = p.make(*m);
        h.push(p.clone());
    }
    let mut keys: Vec<String> = h.iter().map(|x| x.fen4()).collect();
    keys.sort();
    let mut best = 0;
    let mut run = 0;
    for i in 0..keys.len() {
        if i > 0 && keys[i] == keys[i - 1] {
            run += 1;
        } else {
            run = 1;
        }
        best = best.max(run);
    }
    best
}

struct Cmd {
    text: String,
    history: Vec<Pos>,
    last: Pos,
}

fn make_cmd(s: &mut Src, start: &Pos, startpos: bool, moves: &[Mv]) -> Cmd {
    let mut text = if startpos { "position startpos".to_string() } else { {
        let (hw, fw) = (s.below(40) as u32, 1 + s.below(80) as u32);
        let (h, f) = gen::reachable_counters(s, start, hw, fw);
        format!("position fen {}", start.fen(h, f))
    } };
    let mut history = vec![start.clone()];
    let mut p = start.clone();
    if !moves.is_empty() {
        text.push_str(" moves");
        for m in moves {
            text.push(' ');
            text.push_str(&m.uci());
            p = p.make(*m);
            history.push(p.clone());
        }
    }
    Cmd { text, history, last: p }
}

fn count_exact(h: &[Pos], s: &Pos) -> usize {
    h.iter().filter(|x| *x == s).count()
}
fn count_rule(h: &[Pos], s: &Pos) -> usize {
    let k = s.repetition_key();
    h.iter().filter(|x| x.repetition_key() == k).count()
}

fn check(bytes: &[u8], stats: &mut Stats) -> Verdict {
    let mut s = Src::new(bytes);
    let startpos = s.chance(35);
    let start = if startpos { Pos::startpos() } else { gen::g_small(&mut s).0 };
    let Some((moves, _)) = build_history(&mut s, &start) else {
        stats.exclude("no two-sided shuffle available in the generated position");
        return Ok(());
    };
    let last_cmd = make_cmd(&mut s, &start, startpos, &moves);
    let p = last_cmd.last.clone();
    let legal = p.legal_moves();
    if legal.is_empty() {
        stats.exclude("terminal final position");
        return Ok(());
    }
    // optionally an EARLIER position command whose history must not count: the same game but
    // with one more full cycle (more repetitions), or a different game
    let mut cmds: Vec<String> = Vec::new();
    // variant: the game is given first, then the final position again as a bare command (FEN or
    // startpos, no move list): its history is that one position, so nothing has occurred before
    let bare_last = s.chance(20);
    let judged_history: Vec<Pos> = if bare_last { vec![p.clone()] } else { last_cmd.history.clone() };
    if bare_last {
        cmds.push(last_cmd.text.clone());
        stats.class("game_then_bare_position_command");
    } else if s.chance(35) {
        let mut longer: Vec<Mv> = moves.clone();
        // a different, repetition-rich history reaching positions that overlap with this game
        let extra = build_history(&mut s, &start).map(|x| x.0).unwrap_or_default();
        if s.bool() && !extra.is_empty() {
            longer = extra;
        }
        let earlier = make_cmd(&mut s, &start, startpos, &longer);
        cmds.push(earlier.text);
        stats.class("with_earlier_position_command");
    }
    if bare_last {
        if p == Pos::startpos() && s.bool() {
            cmds.push("position startpos".to_string());
        } else {
            let (hw, fw) = (s.below(40) as u32, 1 + s.below(80) as u32);
            let (h, f) = gen::reachable_counters(&mut s, &p, hw, fw);
            cmds.push(format!("position fen {}", p.fen(h, f)));
        }
    } else {
        cmds.push(last_cmd.text.clone());
    }
    let cmds_v = cmds;
    let old = if bare_last { Some(last_cmd.history.as_slice()) } else { None };
    judge(&cmds_v, &judged_history, old, stats)
}

/// The oracle: `cmds` go to a fresh engine followed by `go depth 1`; `judged_history` is the game
/// of the LAST command (its final element is the position searched); `old_history`, if any, is a
/// game given by an earlier command that must not count (used only to classify the case).
pub fn judge(cmds: &[String], judged_history: &[Pos], old_history: Option<&[Pos]>, stats: &mut Stats) -> Verdict {
    let cmds: Vec<String> = cmds.to_vec();
    let p = judged_history.last().unwrap().clone();
    let legal = p.legal_moves();
    if legal.is_empty() {
        stats.exclude("terminal final position");
        return Ok(());
    }
    let bare_last = old_history.is_some();
    // expected value
    let mut rs = RefSearch::new(150_000);
    let mut with_rule = crate::refsearch::LOST;
    let mut without_rule = crate::refsearch::LOST;
    let mut any_draw = false;
    let mut once_decides = false;
    let mut per_move: Vec<Value> = Vec::new();
    let mut ambiguous = false;
    for m in &legal {
        let succ = p.make(*m);
        let n_exact = count_exact(judged_history, &succ);
        let n_rule = count_rule(judged_history, &succ);
        if (n_exact >= 2) != (n_rule >= 2) {
            ambiguous = true;
        }
        let q = match rs.q(&succ) {
            Ok(v) => neg(v),
            Err(_) => {
                stats.exclude("reference quiescence over the node cap");
                return Ok(());
            }
        };
        let draw = n_rule >= 2;
        let val = if draw { 0 } else { q };
        any_draw |= draw;
        if val > with_rule {
            with_rule = val;
        }
        if q > without_rule {
            without_rule = q;
        }
        per_move.push(json!({"move": m.uci(), "earlier_occurrences": n_rule, "real_value": show(q), "counts_as": show(val)}));
        if n_rule == 1 && q != 0 {
            once_decides = true;
        }
    }
    if ambiguous {
        stats.exclude("occurrence count depends on the ep convention (not judged)");
        return Ok(());
    }
    // the engine: fresh process image, position command(s), go depth 1
    let mut fl = Flounder::new();
    let r = std::panic::catch_unwind(std::panic::AssertUnwindSafe(|| {
        for c in &cmds {
            fl.verif_handle_command(c);
        }
        let hist_len = fl.verif_searcher().verif_repetition_snapshot().len();
        // query-level localiser (not a verdict): the predicate negamax evaluates at ply 1
        let mut q_flags = Vec::new();
        for m in &legal {
            let b = eng::to_board(&p.make(*m));
            q_flags.push(fl.verif_searcher().verif_is_repetition_draw(&b));
        }
        fl.verif_searcher().verif_set_hard_cap(Some(3_000_000));
        fl.verif_handle_command("go depth 1");
        let infos = fl.verif_searcher().verif_timer().verif.infos.borrow().clone();
        (hist_len, q_flags, infos)
    }));
    let (hist_len, q_flags, infos) = match r {
        Ok(x) => x,
        Err(pn) => {
            let msg = crate::panic_text(&pn);
            if msg.contains("node hard cap") {
                stats.exclude("engine search over the node watchdog");
                return Ok(());
            }
            return Err(Failure::new("command-panic", json!({"commands": cmds, "panic": msg})));
        }
    };
    stats.eval();
    let Some((_, score, _, mv)) = infos.iter().find(|i| i.0 == 1).copied() else {
        return Err(Failure::new("no-depth-1-info", json!({"commands": cmds})));
    };
    let got = class(score);
    let discriminating = with_rule != without_rule;
    if got != with_rule {
        let query_all_false = legal.iter().zip(q_flags.iter()).all(|(m, f)| !(count_rule(judged_history, &p.make(*m)) >= 2 && *f));
        let sig = if got == without_rule && any_draw && query_all_false && hist_len == 0 {
            "history-not-recorded"
        } else if got == without_rule && any_draw {
            "third-occurrence-not-scored-as-draw"
        } else {
            "wrong-depth-1-value-with-history"
        };
        return Err(Failure::new(
            sig,
            json!({"commands": cmds, "final_position": p.fen4(), "engine_depth1_score": score, "engine_move": mv.map(|m| m.to_algebraic()),
                   "expected_with_draw_rule": show(with_rule), "value_without_draw_rule": show(without_rule), "successors": per_move,
                   "engine_history_entries_after_position_command": hist_len, "engine_repetition_query_per_successor": q_flags}),
        ));
    }
    if any_draw {
        stats.class("has_successor_seen_twice_or_more");
    }
    if judged_history.len() > 101 {
        stats.class("history_longer_than_100_plies");
        let oldest = legal.iter().filter_map(|m| { let sx = p.make(*m); judged_history.iter().rposition(|h| *h == sx).map(|i| judged_history.len() - i) }).max();
        if let Some(o) = oldest { if o > 100 { stats.class("repeated_successor_last_seen_more_than_100_plies_ago"); } }
    }
    if discriminating {
        stats.class("discriminating_draw_rule_changes_value");
    }
    if once_decides {
        stats.class("has_successor_seen_once_with_nonzero_value");
    }
    if bare_last {
        // non-trivial when the abandoned history would have changed the value
        let mut with_old = crate::refsearch::LOST;
        for m in &legal {
            let succ = p.make(*m);
            let q = rs.q(&succ).map(neg).unwrap_or(0);
            let v = if count_rule(old_history.unwrap_or(judged_history), &succ) >= 2 { 0 } else { q };
            with_old = with_old.max(v);
        }
        if with_old != with_rule {
            stats.class("bare_command_discriminates_(old_history_would_change_the_value)");
            stats.nontrivial(&cmds);
        }
    } else if discriminating || (once_decides && with_rule != 0) {
        stats.nontrivial(&cmds);
    }
    stats.sample(|| json!({"commands": cmds.iter().map(|c| if c.len() > 300 { format!("{}…", &c[..300]) } else { c.clone() }).collect::<Vec<_>>(), "expected": show(with_rule), "without_rule": show(without_rule), "engine": score}));
    Ok(())
}

pub fn run(tier: Tier, seed: u64, known: &Known) -> PropRun {
    let mut run = PropRun::new("exploration", RULE);
    run.assumptions = vec![
        "depth-1 value = max over root moves of the negated quiescence value of the successor (reference as in C05), repetition checked only below the root".into(),
        "successors whose occurrence count depends on whether an uncapturable ep square distinguishes positions are excluded (the statement does not fix that convention)".into(),
    ];
    let part = Part { name: "histories", cases: tier.pick(5_000, 200_000), min_len: 24, max_len: 600, max_shrink: 300, threads: threads() };
    let (st, fl) = run_part(&part, seed, known, check);
    run.stats.merge(st);
    run.failure = fl;
    run
}

pub fn replay(_part: &str, bytes: &[u8], case: &Value, stats: &mut Stats) -> Verdict {
    if let Some(cmds) = case.get("commands").and_then(|x| x.as_array()) {
        let cmds: Vec<String> = cmds.iter().filter_map(|c| c.as_str().map(|s| s.to_string())).collect();
        if let Some(last) = cmds.last() {
            if let Ok(game) = crate::script::ref_position(last) {
                return judge(&cmds, &game, None, stats);
            }
        }
    }
    check(bytes, stats)
}

/// Byte-level entry for the fuzz target.
pub fn fuzz_entry(bytes: &[u8]) -> Verdict {
    let mut st = Stats::new();
    check(bytes, &mut st)
}
