//! C10 — attack and line tables are exact for every square and occupancy.
//! The domain is finite: every subset of each square's full rook / bishop rays is enumerated
//! (bare, and OR-ed with noise off the rays), all 64x64 pairs for the line tables.

use crate::props::threads;
use crate::runner::{run_part, Failure, FoundFailure, Known, Part, Verdict};
use crate::src::Src;
use crate::stats::{hash_of, Stats};
use crate::{PropRun, Tier};
use flsrc::lookup::LookupTable;
use flsrc::pieces::Piece;
use serde_json::{json, Value};
use std::sync::Mutex;

pub const RULE: &str = "exhaustive: for each of 64 squares every subset of the full rook rays (2^14 each) and of the full bishop rays (2^7..2^13), each evaluated bare and OR-ed with seed-derived noise off the rays; queen = each enumerated rook subset paired with a derived bishop-ray subset (and vice versa) plus generated random 64-bit occupancies (sparse/uniform/dense); knight and king for all 64 squares; between(a,b,true/false) for all 4032 ordered pairs a!=b. Oracle: coordinate ray walk (stop after first blocker), offset patterns, and line geometry (interior exact, nothing off the segment, end squares by one uniform convention; whole line edge to edge). Non-trivial = at least one blocker on a ray of the square / an aligned pair; distinct by (piece, square, masked occupancy).";

const ROOK_D: [(i32, i32); 4] = [(1, 0), (0, 1), (-1, 0), (0, -1)];
const BISHOP_D: [(i32, i32); 4] = [(1, 1), (-1, 1), (-1, -1), (1, -1)];

fn sq(f: i32, r: i32) -> Option<u8> {
    if (0..8).contains(&f) && (0..8).contains(&r) {
        Some((r * 8 + f) as u8)
    } else {
        None
    }
}

/// Slow obviously-correct slider attack: walk each direction, add the square, stop after the first occupied one.
pub fn ref_slider(s: u8, occ: u64, dirs: &[(i32, i32)]) -> u64 {
    let (f, r) = ((s % 8) as i32, (s / 8) as i32);
    let mut out = 0u64;
    for (df, dr) in dirs {
        let (mut ff, mut rr) = (f + df, r + dr);
        while let Some(q) = sq(ff, rr) {
            out |= 1u64 << q;
            if occ & (1u64 << q) != 0 {
                break;
            }
            ff += df;
            rr += dr;
        }
    }
    out
}

fn full_rays(s: u8, dirs: &[(i32, i32)]) -> Vec<u8> {
    let m = ref_slider(s, 0, dirs);
    (0..64u8).filter(|q| m & (1u64 << q) != 0).collect()
}

fn ref_offsets(s: u8, offs: &[(i32, i32)]) -> u64 {
    let (f, r) = ((s % 8) as i32, (s / 8) as i32);
    let mut out = 0;
    for (df, dr) in offs {
        if let Some(q) = sq(f + df, r + dr) {
            out |= 1u64 << q;
        }
    }
    out
}

fn subset(squares: &[u8], idx: usize) -> u64 {
    let mut o = 0u64;
    for (i, q) in squares.iter().enumerate() {
        if idx & (1 << i) != 0 {
            o |= 1u64 << q;
        }
    }
    o
}

fn piece_name(p: Piece) -> &'static str {
    match p {
        Piece::Rook => "rook",
        Piece::Bishop => "bishop",
        Piece::Queen => "queen",
        Piece::Knight => "knight",
        Piece::King => "king",
        Piece::Pawn => "pawn",
    }
}
fn piece_from(n: &str) -> Piece {
    match n {
        "rook" => Piece::Rook,
        "bishop" => Piece::Bishop,
        "queen" => Piece::Queen,
        "knight" => Piece::Knight,
        _ => Piece::King,
    }
}

fn check_slider(t: &LookupTable, piece: Piece, s: u8, occ: u64) -> Verdict {
    let want = match piece {
        Piece::Rook => ref_slider(s, occ, &ROOK_D),
        Piece::Bishop => ref_slider(s, occ, &BISHOP_D),
        _ => ref_slider(s, occ, &ROOK_D) | ref_slider(s, occ, &BISHOP_D),
    };
    let got = match std::panic::catch_unwind(std::panic::AssertUnwindSafe(|| t.sliding_moves(s, occ, piece))) {
        Ok(g) => g,
        Err(p) => {
            return Err(Failure::new(
                "table-panic",
                json!({"piece": piece_name(piece), "square": refchess::sq_name(s), "square_index": s, "occupancy": format!("{:016x}", occ), "panic": crate::panic_text(&p)}),
            ))
        }
    };
    if got != want {
        return Err(Failure::new(
            "wrong-attack-set",
            json!({"piece": piece_name(piece), "square": refchess::sq_name(s), "square_index": s, "occupancy": format!("{:016x}", occ),
                   "engine": format!("{:016x}", got), "reference": format!("{:016x}", want)}),
        ));
    }
    Ok(())
}

fn sgn(x: i32) -> i32 {
    x.signum()
}

/// Geometry of the pair (a, b): Some((interior, whole line)) if aligned.
fn line_geometry(a: u8, b: u8) -> Option<(u64, u64)> {
    let (af, ar, bf, br) = ((a % 8) as i32, (a / 8) as i32, (b % 8) as i32, (b / 8) as i32);
    let (df, dr) = (bf - af, br - ar);
    if !(df == 0 || dr == 0 || df.abs() == dr.abs()) || (df == 0 && dr == 0) {
        return None;
    }
    let (sf, sr) = (sgn(df), sgn(dr));
    let mut interior = 0u64;
    let (mut f, mut r) = (af + sf, ar + sr);
    while (f, r) != (bf, br) {
        interior |= 1u64 << sq(f, r).unwrap();
        f += sf;
        r += sr;
    }
    let mut line = 1u64 << a;
    for dir in [1, -1] {
        let (mut f, mut r) = (af + sf * dir, ar + sr * dir);
        while let Some(q) = sq(f, r) {
            line |= 1u64 << q;
            f += sf * dir;
            r += sr * dir;
        }
    }
    Some((interior, line))
}

fn check_between_tables(t: &LookupTable, stats: &mut Stats) -> Verdict {
    // endpoint convention must be uniform over all aligned pairs: learn it from the first one
    let mut convention: Option<(bool, bool)> = None; // (includes a, includes b)
    for a in 0..64u8 {
        for b in 0..64u8 {
            if a == b {
                stats.exclude("between(a,a): no caller, no stated meaning");
                continue;
            }
            let seg = t.between(a, b, true);
            let line = t.between(a, b, false);
            stats.evals(2);
            let case = |what: &str, got: u64, want: String| {
                Failure::new(what, json!({"a": refchess::sq_name(a), "b": refchess::sq_name(b), "a_index": a, "b_index": b, "engine": format!("{:016x}", got), "expected": want}))
            };
            match line_geometry(a, b) {
                None => {
                    if seg != 0 {
                        return Err(case("segment-nonaligned-not-empty", seg, "0".into()));
                    }
                    if line != 0 {
                        return Err(case("line-nonaligned-not-empty", line, "0".into()));
                    }
                }
                Some((interior, whole)) => {
                    let ends = (1u64 << a) | (1u64 << b);
                    if seg & !ends != interior {
                        return Err(case("segment-interior-wrong", seg, format!("interior {:016x} (+ end squares by a uniform convention)", interior)));
                    }
                    let conv = (seg & (1u64 << a) != 0, seg & (1u64 << b) != 0);
                    match convention {
                        None => convention = Some(conv),
                        Some(c) if c != conv => {
                            return Err(case("segment-endpoint-convention-not-uniform", seg, format!("end squares included as (from,to)={:?} like every earlier pair", c)));
                        }
                        _ => {}
                    }
                    if line != whole {
                        return Err(case("whole-line-wrong", line, format!("{:016x}", whole)));
                    }
                    stats.nontrivial(&("between", a, b));
                }
            }
        }
    }
    stats.sample(|| json!({"table": "between", "endpoint_convention_(from,to)_included": format!("{:?}", convention)}));
    Ok(())
}

fn check_square(t: &LookupTable, s: u8, seed: u64, stats: &mut Stats) -> Verdict {
    let rook_rays = full_rays(s, &ROOK_D);
    let bishop_rays = full_rays(s, &BISHOP_D);
    let rook_mask = subset(&rook_rays, usize::MAX >> 1);
    let bishop_mask = subset(&bishop_rays, (1usize << bishop_rays.len()) - 1);
    let off = !(rook_mask | bishop_mask | (1u64 << s));
    // knight / king
    for (piece, offs) in [
        (Piece::Knight, [(1, 2), (2, 1), (2, -1), (1, -2), (-1, -2), (-2, -1), (-2, 1), (-1, 2)]),
        (Piece::King, [(1, 0), (1, 1), (0, 1), (-1, 1), (-1, 0), (-1, -1), (0, -1), (1, -1)]),
    ] {
        let got = t.non_sliding_moves(s, piece);
        let want = ref_offsets(s, &offs);
        stats.eval();
        stats.nontrivial(&(piece_name(piece), s));
        if got != want {
            return Err(Failure::new(
                "wrong-attack-set",
                json!({"piece": piece_name(piece), "square": refchess::sq_name(s), "square_index": s, "occupancy": "0", "engine": format!("{:016x}", got), "reference": format!("{:016x}", want)}),
            ));
        }
    }
    for (piece, rays, other_rays) in [(Piece::Rook, &rook_rays, &bishop_rays), (Piece::Bishop, &bishop_rays, &rook_rays)] {
        let n = 1usize << rays.len();
        for idx in 0..n {
            let occ = subset(rays, idx);
            // bare
            check_slider(t, piece, s, occ)?;
            // with noise everywhere off this piece's rays (incl. the square itself and the other piece's rays)
            let h = hash_of(&(seed, s, idx as u64, piece_name(piece)));
            let this_mask = if piece == Piece::Rook { rook_mask } else { bishop_mask };
            let noise = h & !this_mask;
            check_slider(t, piece, s, occ | noise)?;
            // queen: this subset paired with a derived subset of the other rays (+ off-ray noise)
            let other = subset(other_rays, (h >> 20) as usize & ((1usize << other_rays.len()) - 1));
            check_slider(t, Piece::Queen, s, occ | other | (h.rotate_left(13) & off))?;
            stats.evals(3);
            if idx != 0 {
                stats.nontrivial(&(piece_name(piece), s, occ));
            }
            if idx % 4099 == 7 {
                stats.sample(|| json!({"piece": piece_name(piece), "square": refchess::sq_name(s), "occupancy": format!("{:016x}", occ | noise), "attacks": format!("{:016x}", t.sliding_moves(s, occ | noise, piece))}));
            }
        }
    }
    Ok(())
}

fn part_random_queen(bytes: &[u8], stats: &mut Stats) -> Verdict {
    thread_local! { static T: LookupTable = LookupTable::init(); }
    let mut s = Src::new(bytes);
    let sqr = s.below(64) as u8;
    let a = s.u64();
    let b = s.u64();
    let c = s.u64();
    let occ = match s.below(3) {
        0 => a & b & c, // sparse
        1 => a,         // uniform
        _ => a | b | c, // dense
    };
    let piece = *s.pick(&[Piece::Queen, Piece::Queen, Piece::Rook, Piece::Bishop]);
    stats.eval();
    let blockers = occ & (ref_slider(sqr, 0, &ROOK_D) | ref_slider(sqr, 0, &BISHOP_D));
    if blockers != 0 {
        stats.nontrivial(&(piece_name(piece), sqr, blockers));
    }
    stats.sample(|| json!({"piece": piece_name(piece), "square": refchess::sq_name(sqr), "occupancy": format!("{:016x}", occ)}));
    T.with(|t| check_slider(t, piece, sqr, occ))
}

pub fn run(tier: Tier, seed: u64, known: &Known) -> PropRun {
    let mut run = PropRun::new("exploration", RULE);
    run.exhaustive = true;
    run.assumptions = vec![
        "bits off a piece's rays cannot matter: checked by OR-ing seed-derived noise onto every enumerated subset, not proved".into(),
        "between(a,a) is not part of the property (no caller)".into(),
    ];
    let rebuilds = tier.pick(2, 16);
    let fail: Mutex<Option<(usize, Failure)>> = Mutex::new(None);
    let merged: Mutex<Stats> = Mutex::new(Stats::new());
    for rebuild in 0..rebuilds {
        // construction is part of the property: re-create the table
        std::thread::scope(|sc| {
            let nt = threads().min(64);
            for w in 0..nt {
                let fail = &fail;
                let merged = &merged;
                sc.spawn(move || {
                    let t = LookupTable::init();
                    let mut st = Stats::new();
                    if w == 0 {
                        if let Err(f) = check_between_tables(&t, &mut st) {
                            fail.lock().unwrap().get_or_insert((0, f));
                        }
                    }
                    let mut s = w;
                    while s < 64 {
                        if fail.lock().unwrap().is_some() {
                            break;
                        }
                        if let Err(f) = check_square(&t, s as u8, seed.wrapping_add(rebuild as u64), &mut st) {
                            fail.lock().unwrap().get_or_insert((w, f));
                            break;
                        }
                        s += nt;
                    }
                    merged.lock().unwrap().merge(st);
                });
            }
        });
        if fail.lock().unwrap().is_some() {
            break;
        }
    }
    run.stats.merge(merged.into_inner().unwrap());
    run.stats.class_n("table_constructions", rebuilds as u64 * threads().min(64) as u64);
    if let Some((w, f)) = fail.into_inner().unwrap() {
        if known.matches(&f.sig).is_some() {
            run.stats.known_finding(&f.sig, f.detail.clone());
        } else {
            run.failure = Some(FoundFailure { part: "enumeration".into(), bytes: vec![], failure: f, worker: w, seed });
            return run;
        }
    }
    let part = Part { name: "random", cases: tier.pick(2_000_000, 50_000_000), min_len: 26, max_len: 26, max_shrink: 2000, threads: threads() };
    let (st, fl) = run_part(&part, seed, known, part_random_queen);
    run.stats.merge(st);
    run.failure = fl;
    run
}

pub fn replay(part: &str, bytes: &[u8], case: &Value, stats: &mut Stats) -> Verdict {
    let t = LookupTable::init();
    match part {
        "random" => part_random_queen(bytes, stats),
        _ => {
            if case.get("a_index").is_some() {
                // pair tables are judged as a whole (the endpoint convention is a global property)
                return check_between_tables(&t, stats);
            }
            let piece = piece_from(case["piece"].as_str().unwrap_or("rook"));
            let s = case["square_index"].as_u64().unwrap_or(0) as u8;
            let occ = u64::from_str_radix(case["occupancy"].as_str().unwrap_or("0"), 16).unwrap_or(0);
            match piece {
                Piece::Knight | Piece::King => check_square(&t, s, 0, stats),
                _ => check_slider(&t, piece, s, occ),
            }
        }
    }
}
