//! C10 — attack and line tables are exact for every square and occupancy.
//! The domain is finite: every subset of each square's full rook / bishop rays is enumerated
//! (bare, and OR-ed with noise off the rays), all 64x64 pairs for the line tables.

use crate::props::threads;
use crate::runner::{run_part, Failure, FoundFailure, Known, Part, Verdict};
use crate::src::Src;
use crate::stats::{hash_of, Stats};
use crate::{PropRun, Tier};
use flsrc::lookup::LookupTable;
use flsrc::pieces::Piece;
use serde_json::{json, Value};
use std::sync::Mutex;

pub const RULE: &str = "exhaustive: for each of 64 squares every subset of the full rook rays (2^14 each) and of the full bishop rays (2^7..2^13), each evaluated bare and OR-ed with seed-derived noise off the rays; queen = each enumerated rook subset paired with a derived bishop-ray subset (and vice versa) plus generated random 64-bit occupancies (sparse/uniform/dense); knight and king for all 64 squares; between(a,b,true/false) for all 4032 ordered pairs a!=b. Part 'sequences' (lookups in ORDER on one table): position sweeps — with one full-board occupancy every ordered pair (kind1 on square1, then kind2 on square2) over rook/bishop/queen and 64 x 64 squares, 48 occupancies — and revisits — a lookup, N lookups from other squares with ever new occupancies (N around the powers of two up to 2^17), then the same kind from the same square with other blockers. Oracle: coordinate ray walk (stop after first blocker), offset patterns, and line geometry (interior exact, nothing off the segment, end squares by one uniform convention; whole line edge to edge). Non-trivial = at least one blocker on a ray of the square / an aligned pair; distinct by (piece, square, masked occupancy).";

const ROOK_D: [(i32, i32); 4] = [(1, 0), (0, 1), (-1, 0), (0, -1)];
const BISHOP_D: [(i32, i32); 4] = [(1, 1), (-1, 1), (-1, -1), (1, -1)];

fn sq(f: i32, r: i32) -> Option<u8> {
    if (0..8).contains(&f) && (0..8).contains(&r) {
        Some((r * 8 + f) as u8)
    } else {
        None
    }
}

/// Slow obviously-correct slider attack: walk each direction, add the square, stop after the first occupied one.
pub fn ref_slider(s: u8, occ: u64, dirs: &[(i32, i32)]) -> u64 {
    let (f, r) = ((s % 8) as i32, (s / 8) as i32);
    let mut out = 0u64;
    for (df, dr) in dirs {
        let (mut ff, mut rr) = (f + df, r + dr);
        while let Some(q) = sq(ff, rr) {
            out |= 1u64 << q;
            if occ & (1u64 << q) != 0 {
                break;
            }
            ff += df;
            rr += dr;
        }
    }
    out
}

fn full_rays(s: u8, dirs: &[(i32, i32)]) -> Vec<u8> {
    let m = ref_slider(s, 0, dirs);
    (0..64u8).filter(|q| m & (1u64 << q) != 0).collect()
}

fn ref_offsets(s: u8, offs: &[(i32, i32)]) -> u64 {
    let (f, r) = ((s % 8) as i32, (s / 8) as i32);
    let mut out = 0;
    for (df, dr) in offs {
        if let Some(q) = sq(f + df, r + dr) {
            out |= 1u64 << q;
        }
    }
    out
}

fn subset(squares: &[u8], idx: usize) -> u64 {
    let mut o = 0u64;
    for (i, q) in squares.iter().enumerate() {
        if idx & (1 << i) != 0 {
            o |= 1u64 << q;
        }
    }
    o
}

fn piece_name(p: Piece) -> &'static str {
    match p {
        Piece::Rook => "rook",
        Piece::Bishop => "bishop",
        Piece::Queen => "queen",
        Piece::Knight => "knight",
        Piece::King => "king",
        Piece::Pawn => "pawn",
    }
}
fn piece_from(n: &str) -> Piece {
    match n {
        "rook" => Piece::Rook,
        "bishop" => Piece::Bishop,
        "queen" => Piece::Queen,
        "knight" => Piece::Knight,
        _ => Piece::King,
    }
}

fn check_slider(t: &LookupTable, piece: Piece, s: u8, occ: u64) -> Verdict {
    let want = match piece {
        Piece::Rook => ref_slider(s, occ, &ROOK_D),
        Piece::Bishop => ref_slider(s, occ, &BISHOP_D),
        _ => ref_slider(s, occ, &ROOK_D) | ref_slider(s, occ, &BISHOP_D),
    };
    let got = match std::panic::catch_unwind(std::panic::AssertUnwindSafe(|| t.sliding_moves(s, occ, piece))) {
        Ok(g) => g,
        Err(p) => {
            return Err(Failure::new(
                "table-panic",
                json!({"piece": piece_name(piece), "square": refchess::sq_name(s), "square_index": s, "occupancy": format!("{:016x}", occ), "panic": crate::panic_text(&p)}),
            ))
        }
    };
    if got != want {
        return Err(Failure::new(
            "wrong-attack-set",
            json!({"piece": piece_name(piece), "square": refchess::sq_name(s), "square_index": s, "occupancy": format!("{:016x}", occ),
                   "engine": format!("{:016x}", got), "reference": format!("{:016x}", want)}),
        ));
    }
    Ok(())
}

fn sgn(x: i32) -> i32 {
    x.signum()
}

/// Geometry of the pair (a, b): Some((interior, whole line)) if aligned.
fn line_geometry(a: u8, b: u8) -> Option<(u64, u64)> {
    let (af, ar, bf, br) = ((a % 8) as i32, (a / 8) as i32, (b % 8) as i32, (b / 8) as i32);
    let (df, dr) = (bf - af, br - ar);
    if !(df == 0 || dr == 0 || df.abs() == dr.abs()) || (df == 0 && dr == 0) {
        return None;
    }
    let (sf, sr) = (sgn(df), sgn(dr));
    let mut interior = 0u64;
    let (mut f, mut r) = (af + sf, ar + sr);
    while (f, r) != (bf, br) {
        interior |= 1u64 << sq(f, r).unwrap();
        f += sf;
        r += sr;
    }
    let mut line = 1u64 << a;
    for dir in [1, -1] {
        let (mut f, mut r) = (af + sf * dir, ar + sr * dir);
        while let Some(q) = sq(f, r) {
            line |= 1u64 << q;
            f += sf * dir;
            r += sr * dir;
        }
    }
    Some((interior, line))
}

fn check_between_tables(t: &LookupTable, stats: &mut Stats) -> Verdict {
    // endpoint convention must be uniform over all aligned pairs: learn it from the first one
    let mut convention: Option<(bool, bool)> = None; // (includes a, includes b)
    for a in 0..64u8 {
        for b in 0..64u8 {
            if a == b {
                stats.exclude("between(a,a): no caller, no stated meaning");
                continue;
            }
            let seg = t.between(a, b, true);
            let line = t.between(a, b, false);
            stats.evals(2);
            let case = |what: &str, got: u64, want: String| {
                Failure::new(what, json!({"a": refchess::sq_name(a), "b": refchess::sq_name(b), "a_index": a, "b_index": b, "engine": format!("{:016x}", got), "expected": want}))
            };
            match line_geometry(a, b) {
                None => {
                    if seg != 0 {
                        return Err(case("segment-nonaligned-not-empty", seg, "0".into()));
                    }
                    if line != 0 {
                        return Err(case("line-nonaligned-not-empty", line, "0".into()));
                    }
                }
                Some((interior, whole)) => {
                    let ends = (1u64 << a) | (1u64 << b);
                    if seg & !ends != interior {
                        return Err(case("segment-interior-wrong", seg, format!("interior {:016x} (+ end squares by a uniform convention)", interior)));
                    }
                    let conv = (seg & (1u64 << a) != 0, seg & (1u64 << b) != 0);
                    match convention {
                        None => convention = Some(conv),
                        Some(c) if c != conv => {
                            return Err(case("segment-endpoint-convention-not-uniform", seg, format!("end squares included as (from,to)={:?} like every earlier pair", c)));
                        }
                        _ => {}
                    }
                    if line != whole {
                        return Err(case("whole-line-wrong", line, format!("{:016x}", whole)));
                    }
                    stats.nontrivial(&("between", a, b));
                }
            }
        }
    }
    stats.sample(|| json!({"table": "between", "endpoint_convention_(from,to)_included": format!("{:?}", convention)}));
    Ok(())
}

fn check_square(t: &LookupTable, s: u8, seed: u64, stats: &mut Stats) -> Verdict {
    let rook_rays = full_rays(s, &ROOK_D);
    let bishop_rays = full_rays(s, &BISHOP_D);
    let rook_mask = subset(&rook_rays, usize::MAX >> 1);
    let bishop_mask = subset(&bishop_rays, (1usize << bishop_rays.len()) - 1);
    let off = !(rook_mask | bishop_mask | (1u64 << s));
    // knight / king
    for (piece, offs) in [
        (Piece::Knight, [(1, 2), (2, 1), (2, -1), (1, -2), (-1, -2), (-2, -1), (-2, 1), (-1, 2)]),
        (Piece::King, [(1, 0), (1, 1), (0, 1), (-1, 1), (-1, 0), (-1, -1), (0, -1), (1, -1)]),
    ] {
        let got = t.non_sliding_moves(s, piece);
        let want = ref_offsets(s, &offs);
        stats.eval();
        stats.nontrivial(&(piece_name(piece), s));
        if got != want {
            return Err(Failure::new(
                "wrong-attack-set",
                json!({"piece": piece_name(piece), "square": refchess::sq_name(s), "square_index": s, "occupancy": "0", "engine": format!("{:016x}", got), "reference": format!("{:016x}", want)}),
            ));
        }
    }
    for (piece, rays, other_rays) in [(Piece::Rook, &rook_rays, &bishop_rays), (Piece::Bishop, &bishop_rays, &rook_rays)] {
        let n = 1usize << rays.len();
        for idx in 0..n {
            let occ = subset(rays, idx);
            // bare
            check_slider(t, piece, s, occ)?;
            // with noise everywhere off this piece's rays (incl. the square itself and the other piece's rays)
            let h = hash_of(&(seed, s, idx as u64, piece_name(piece)));
            let this_mask = if piece == Piece::Rook { rook_mask } else { bishop_mask };
            let noise = h & !this_mask;
            check_slider(t, piece, s, occ | noise)?;
            // queen: this subset paired with a derived subset of the other rays (+ off-ray noise)
            let other = subset(other_rays, (h >> 20) as usize & ((1usize << other_rays.len()) - 1));
            check_slider(t, Piece::Queen, s, occ | other | (h.rotate_left(13) & off))?;
            stats.evals(3);
            if idx != 0 {
                stats.nontrivial(&(piece_name(piece), s, occ));
            }
            if idx % 4099 == 7 {
                stats.sample(|| json!({"piece": piece_name(piece), "square": refchess::sq_name(s), "occupancy": format!("{:016x}", occ | noise), "attacks": format!("{:016x}", t.sliding_moves(s, occ | noise, piece))}));
            }
        }
    }
    Ok(())
}

fn part_random_queen(bytes: &[u8], stats: &mut Stats) -> Verdict {
    thread_local! { static T: LookupTable = LookupTable::init(); }
    let mut s = Src::new(bytes);
    let sqr = s.below(64) as u8;
    let a = s.u64();
    let b = s.u64();
    let c = s.u64();
    let occ = match s.below(3) {
        0 => a & b & c, // sparse
        1 => a,         // uniform
        _ => a | b | c, // dense
    };
    let piece = *s.pick(&[Piece::Queen, Piece::Queen, Piece::Rook, Piece::Bishop]);
    stats.eval();
    let blockers = occ & (ref_slider(sqr, 0, &ROOK_D) | ref_slider(sqr, 0, &BISHOP_D));
    if blockers != 0 {
        stats.nontrivial(&(piece_name(piece), sqr, blockers));
    }
    stats.sample(|| json!({"piece": piece_name(piece), "square": refchess::sq_name(sqr), "occupancy": format!("{:016x}", occ)}));
    T.with(|t| check_slider(t, piece, sqr, occ))
}

fn mixk(x: u64) -> u64 {
    let mut z = x.wrapping_add(0x9e37_79b9_7f4a_7c15);
    z = (z ^ (z >> 30)).wrapping_mul(0xbf58_476d_1ce4_e5b9);
    z = (z ^ (z >> 27)).wrapping_mul(0x94d0_49bb_1331_11eb);
    z ^ (z >> 31)
}

/// Part 'sequences' — lookups in ORDER on one table (the enumeration above asks one square at a
/// time; a table that remembers its last answers is only exposed by what is asked next):
///  (a) position sweeps: with ONE full-board occupancy, as move generation does it, every ordered
///      pair (kind1 on square1, then kind2 on square2) over rook/bishop/queen and all 64 x 64 squares;
///  (b) revisits: a lookup, then N lookups from other squares with ever new occupancies, then the
///      same kind from the same square with OTHER blockers — N around the powers of two up to 2^17
///      (255, 256, 257, 65534, 65535, 65536, 131070, ...), where a small counter or generation
///      number comes round again.
fn sequences_item(item: &(u8, u64), stats: &mut Stats) -> Verdict {
    let (mode, x) = *item;
    let t = LookupTable::init();
    let kinds = [Piece::Rook, Piece::Bishop, Piece::Queen];
    if mode == 0 {
        // (a): occupancy x of a chosen density; all ordered pairs of (kind, square)
        let occ = match x % 3 {
            0 => mixk(x) & mixk(x + 1) & mixk(x + 2),
            1 => mixk(x),
            _ => mixk(x) | mixk(x + 1),
        } | if x % 5 == 0 { 0xff00_0000_0000_00ff } else { 0 };
        for k1 in kinds {
            for k2 in kinds {
                for s1 in 0..64u8 {
                    for s2 in 0..64u8 {
                        check_slider(&t, k1, s1, occ).map_err(|mut f| {
                            f.detail["asked_in_a_sequence_on_one_table"] = json!(true);
                            f
                        })?;
                        check_slider(&t, k2, s2, occ).map_err(|mut f| {
                            f.detail["asked_right_after"] = json!({"piece": piece_name(k1), "square": refchess::sq_name(s1), "same_occupancy": true});
                            f.detail["replay"] = json!({"sequence": [[piece_name(k1), s1, format!("{:016x}", occ)], [piece_name(k2), s2, format!("{:016x}", occ)]]});
                            f
                        })?;
                    }
                }
            }
        }
        stats.evals(2 * 9 * 4096);
        stats.class("position_sweeps_(one_occupancy,_all_ordered_pairs_of_lookups)");
        stats.nontrivial(&("sweep", occ));
    } else {
        // (b): revisit after n fillers
        let n = x;
        for k in [Piece::Rook, Piece::Bishop] {
            for s in 0..64u8 {
                let occ_a = mixk(n ^ (s as u64) << 8 ^ 1);
                let occ_b = mixk(n ^ (s as u64) << 8 ^ 2) | occ_a.rotate_left(9);
                check_slider(&t, k, s, occ_a)?;
                for i in 0..n {
                    let fs = ((s as u64 + 1 + i % 63) % 64) as u8;
                    let focc = mixk(i ^ n << 20 ^ (s as u64) << 40);
                    let got = t.sliding_moves(fs, focc, k);
                    if i % 4096 == 0 {
                        let want = if k == Piece::Rook { ref_slider(fs, focc, &ROOK_D) } else { ref_slider(fs, focc, &BISHOP_D) };
                        if got != want {
                            return Err(Failure::new("wrong-attack-set", json!({"piece": piece_name(k), "square": refchess::sq_name(fs), "square_index": fs, "occupancy": format!("{:016x}", focc), "engine": format!("{:016x}", got), "reference": format!("{:016x}", want), "in_a_sequence_of_lookups": i})));
                        }
                    }
                }
                check_slider(&t, k, s, occ_b).map_err(|mut f| {
                    f.detail["asked_again_after_lookups_from_other_squares"] = json!(n);
                    f.detail["first_occupancy"] = json!(format!("{:016x}", occ_a));
                    f.detail["replay"] = json!({"revisit": {"piece": piece_name(k), "square": s, "fillers": n}});
                    f
                })?;
            }
        }
        stats.evals(2 * 64 * (n + 2));
        stats.class("revisits_after_n_lookups_from_other_squares");
        stats.nontrivial(&("revisit", n));
    }
    Ok(())
}

fn sequences_items(tier: Tier) -> Vec<(u8, u64)> {
    let mut v: Vec<(u8, u64)> = (0..tier.pick(48u64, 600u64)).map(|i| (0u8, i)).collect();
    for n in [0u64, 1, 2, 3, 7, 8, 15, 16, 17, 127, 128, 255, 256, 257, 511, 512, 1023, 1024, 4095, 4096, 32767, 32768, 65534, 65535, 65536, 65537, 131069, 131070, 131071, 131072] {
        v.push((1, n));
    }
    v
}

pub fn run(tier: Tier, seed: u64, known: &Known) -> PropRun {
    let mut run = PropRun::new("exploration", RULE);
    run.exhaustive = true;
    run.assumptions = vec![
        "bits off a piece's rays cannot matter: checked by OR-ing seed-derived noise onto every enumerated subset, not proved".into(),
        "between(a,a) is not part of the property (no caller)".into(),
    ];
    let rebuilds = tier.pick(2, 16);
    let fail: Mutex<Option<(usize, Failure)>> = Mutex::new(None);
    let merged: Mutex<Stats> = Mutex::new(Stats::new());
    for rebuild in 0..rebuilds {
        // construction is part of the property: re-create the table
        std::thread::scope(|sc| {
            let nt = threads().min(64);
            for w in 0..nt {
                let fail = &fail;
                let merged = &merged;
                sc.spawn(move || {
                    let t = LookupTable::init();
                    let mut st = Stats::new();
                    if w == 0 {
                        if let Err(f) = check_between_tables(&t, &mut st) {
                            fail.lock().unwrap().get_or_insert((0, f));
                        }
                    }
                    let mut s = w;
                    while s < 64 {
                        if fail.lock().unwrap().is_some() {
                            break;
                        }
                        if let Err(f) = check_square(&t, s as u8, seed.wrapping_add(rebuild as u64), &mut st) {
                            fail.lock().unwrap().get_or_insert((w, f));
                            break;
                        }
                        s += nt;
                    }
                    merged.lock().unwrap().merge(st);
                });
            }
        });
        if fail.lock().unwrap().is_some() {
            break;
        }
    }
    run.stats.merge(merged.into_inner().unwrap());
    run.stats.class_n("table_constructions", rebuilds as u64 * threads().min(64) as u64);
    if let Some((w, f)) = fail.into_inner().unwrap() {
        if known.matches(&f.sig).is_some() {
            run.stats.known_finding(&f.sig, f.detail.clone());
        } else {
            run.failure = Some(FoundFailure { part: "enumeration".into(), bytes: vec![], failure: f, worker: w, seed });
            return run;
        }
    }
    {
        let items = sequences_items(tier);
        let (st, fl) = crate::runner::run_enumerated("sequences", &items, threads(), seed, known, |it, st| sequences_item(it, st));
        run.stats.merge(st);
        if fl.is_some() {
            run.failure = fl;
            return run;
        }
    }
    let part = Part { name: "random", cases: tier.pick(2_000_000, 50_000_000), min_len: 26, max_len: 26, max_shrink: 2000, threads: threads() };
    let (st, fl) = run_part(&part, seed, known, part_random_queen);
    run.stats.merge(st);
    run.failure = fl;
    run
}

pub fn replay(part: &str, bytes: &[u8], case: &Value, stats: &mut Stats) -> Verdict {
    if let Some(r) = case.get("replay") {
        if let Some(sq) = r.get("sequence").and_then(|x| x.as_array()) {
            let t = LookupTable::init();
            for it in sq {
                let (Some(pn), Some(s), Some(o)) = (it.get(0).and_then(|x| x.as_str()), it.get(1).and_then(|x| x.as_u64()), it.get(2).and_then(|x| x.as_str())) else { continue };
                let occ = u64::from_str_radix(o, 16).unwrap_or(0);
                stats.eval();
                check_slider(&t, piece_from(pn), s as u8, occ)?;
            }
            return Ok(());
        }
        if let Some(n) = r.get("revisit").and_then(|x| x.get("fillers")).and_then(|x| x.as_u64()) {
            return sequences_item(&(1, n), stats);
        }
    }
    let t = LookupTable::init();
    match part {
        "random" => part_random_queen(bytes, stats),
        _ => {
            if case.get("a_index").is_some() {
                // pair tables are judged as a whole (the endpoint convention is a global property)
                return check_between_tables(&t, stats);
            }
            let piece = piece_from(case["piece"].as_str().unwrap_or("rook"));
            let s = case["square_index"].as_u64().unwrap_or(0) as u8;
            let occ = u64::from_str_radix(case["occupancy"].as_str().unwrap_or("0"), 16).unwrap_or(0);
            match piece {
                Piece::Knight | Piece::King => check_square(&t, s, 0, stats),
                _ => check_slider(&t, piece, s, occ),
            }
        }
    }
}
