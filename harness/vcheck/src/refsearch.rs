//! Reference search (filled in later).
