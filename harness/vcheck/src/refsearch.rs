//! Reference search: plain negamax without pruning, ordering, caching or iteration, over the
//! reference rules, with the engine's own static evaluation at the leaves of the quiescence tree.
//!
//!   V(p,d) = Q(p)                                if d = 0
//!          = LOST (in check) | 0 (stalemate)     if p has no legal move
//!          = max over legal m of -V(p·m, d-1)    otherwise
//!   Q(p)   = LOST                                 if in check and no legal move
//!          = max( eval(p), max over m in T(p) of -Q(p·m) )
//!   T(p)   = all legal moves if p is in check, else captures ∪ promotions ∪ checking moves

use crate::eng;
use flsrc::eval::Evaluator;
use refchess::{Mv, Pos};
use std::collections::{HashMap, HashSet};

pub const WON: i32 = i32::MAX;
pub const LOST: i32 = -i32::MAX;
/// the engine's search window: scores at or beyond it are compared as won / lost
pub const WINDOW: i32 = 32767;
/// mate score of the reference alpha-beta quiescence (any value beyond the window)
pub const MATE: i32 = 2_000_000_000;

pub fn neg(v: i32) -> i32 {
    -v
}

/// Class of an engine score: WON, LOST or the exact integer.
pub fn class(score: i32) -> i32 {
    if score >= WINDOW {
        WON
    } else if score <= -WINDOW {
        LOST
    } else {
        score
    }
}

pub fn show(v: i32) -> String {
    match v {
        WON => "WON".into(),
        LOST => "LOST".into(),
        x => x.to_string(),
    }
}

#[derive(Debug, Clone, PartialEq, Eq)]
pub enum Abort {
    NodeCap,
    Cycle,
    TooDeep,
}

pub struct RefSearch {
    pub evaluator: Evaluator,
    pub qmemo: HashMap<Pos, i32>,
    pub qab_memo: HashMap<Pos, i32>,
    /// node budget of one definitional attempt before falling back to alpha-beta
    pub def_budget: u64,
    pub leaves_definitional: u64,
    pub leaves_alphabeta: u64,
    pub cross_checked: u64,
    pub cross_check_failure: Option<String>,
    pub vmemo: HashMap<(Pos, u8), i32>,
    in_progress: HashSet<Pos>,
    pub nodes: u64,
    pub cap: u64,
    pub max_q_depth: usize,
    /// repetition rule for C09: positions (by reference identity) that count as a draw when
    /// they come up below the root
    pub draw_positions: Option<HashSet<Pos>>,
    /// the same rule with the rule-book identity of positions (ep square only when capturable)
    /// (representatives: a position counts when placement, side to move and castling rights are
    /// those of a representative and its capturable-ep square is the same)
    pub draw_keys: Option<Vec<(Pos, Option<u8>)>>,
    /// when set, the rule is applied one ply below the root only (used to classify cases)
    pub draw_first_ply_only: bool,
}

impl RefSearch {
    pub fn new(cap: u64) -> RefSearch {
        RefSearch { evaluator: Evaluator::new(), qmemo: HashMap::new(), qab_memo: HashMap::new(), def_budget: 3_000, leaves_definitional: 0, leaves_alphabeta: 0, cross_checked: 0, cross_check_failure: None, vmemo: HashMap::new(), in_progress: HashSet::new(), nodes: 0, cap, max_q_depth: 600, draw_positions: None, draw_keys: None, draw_first_ply_only: false }
    }

    pub fn eval(&mut self, p: &Pos) -> i32 {
        // a fresh evaluator per leaf: the reference value is the pure function C14 speaks about,
        // whatever a long-lived evaluator inside the engine may have seen before
        let b = eng::to_board(p);
        Evaluator::new().evaluate(&b)
    }

    /// The tactical move set of the property C17 (computed entirely by the reference).
    pub fn tactical(p: &Pos) -> Vec<Mv> {
        let legal = p.legal_moves();
        if p.in_check() {
            return legal;
        }
        legal
            .into_iter()
            .filter(|m| {
                let i = p.info(*m);
                i.capture || i.promo || p.make(*m).in_check()
            })
            .collect()
    }

    /// Leaf value.  First the definitional quiescence minimax (exact when the quiescence tree
    /// is finite and small); when that tree has a cycle or is too large, an independent
    /// full-window fail-hard alpha-beta over the same move sets and evaluation.  Soundness of
    /// the fallback: whenever an alpha-beta quiescence terminates it has explored a finite
    /// subtree S, and for every truncation depth k > depth(S) (truncated nodes scored by their
    /// static evaluation) its result is clamp(minimax(T_k), alpha, beta) whatever the move
    /// order; so two terminating alpha-beta runs (the engine's and this one) are statements
    /// about the same number.
    pub fn q(&mut self, p: &Pos) -> Result<i32, Abort> {
        if let Some(v) = self.qmemo.get(p) {
            return Ok(*v);
        }
        if let Some(v) = self.qab_memo.get(p) {
            return Ok(*v);
        }
        let saved_cap = self.cap;
        self.cap = self.cap.min(self.nodes + self.def_budget);
        let r = self.q_rec(p, 0);
        self.cap = saved_cap;
        self.in_progress.clear();
        match r {
            Ok(v) => {
                self.leaves_definitional += 1;
                // standing self-validation of the fallback: on a sample of the leaves whose
                // definitional value exists, the alpha-beta reference must give the same number
                if self.leaves_definitional % 16 == 1 {
                    let saved = self.cap;
                    self.cap = self.nodes + 50_000;
                    let ab = self.q_ab(p, -WINDOW, WINDOW, 0);
                    self.cap = saved;
                    if let Ok(raw) = ab {
                        self.cross_checked += 1;
                        if class(raw) != v {
                            self.cross_check_failure = Some(format!("{}: definitional {} vs alpha-beta {}", p.fen4(), show(v), show(class(raw))));
                        }
                    }
                }
                Ok(v)
            }
            Err(_) => {
                let raw = self.q_ab(p, -WINDOW, WINDOW, 0)?;
                let v = class(raw);
                self.leaves_alphabeta += 1;
                self.qab_memo.insert(p.clone(), v);
                Ok(v)
            }
        }
    }

    /// Independent fail-hard alpha-beta quiescence (reference rules, engine evaluation).
    pub fn q_ab(&mut self, p: &Pos, mut alpha: i32, beta: i32, depth: usize) -> Result<i32, Abort> {
        self.nodes += 1;
        if self.nodes > self.cap {
            return Err(Abort::NodeCap);
        }
        if depth > 20_000 {
            return Err(Abort::TooDeep);
        }
        let mut moves = Self::tactical(p);
        if moves.is_empty() && p.in_check() {
            return Ok(-MATE);
        }
        let stand_pat = self.eval(p);
        if stand_pat >= beta {
            return Ok(beta);
        }
        if stand_pat > alpha {
            alpha = stand_pat;
        }
        // captures of the most valuable victims first (any order is sound)
        moves.sort_by_key(|m| match p.sq[m.to as usize] {
            Some((_, k)) => -(k as i32) - 1,
            None => 0,
        });
        for m in moves {
            let c = p.make(m);
            let score = -self.q_ab(&c, -beta, -alpha, depth + 1)?;
            if score >= beta {
                return Ok(beta);
            }
            if score > alpha {
                alpha = score;
            }
        }
        Ok(alpha)
    }

    fn q_rec(&mut self, p: &Pos, depth: usize) -> Result<i32, Abort> {
        if let Some(v) = self.qmemo.get(p) {
            return Ok(*v);
        }
        self.nodes += 1;
        if self.nodes > self.cap {
            return Err(Abort::NodeCap);
        }
        if depth > self.max_q_depth {
            return Err(Abort::TooDeep);
        }
        if !self.in_progress.insert(p.clone()) {
            return Err(Abort::Cycle);
        }
        let moves = Self::tactical(p);
        let res = (|| {
            if moves.is_empty() && p.in_check() {
                return Ok(LOST);
            }
            let mut best = self.eval(p);
            for m in moves {
                let c = p.make(m);
                let v = neg(self.q_rec(&c, depth + 1)?);
                if v > best {
                    best = v;
                }
            }
            Ok(best)
        })();
        self.in_progress.remove(p);
        let v = res?;
        self.qmemo.insert(p.clone(), v);
        Ok(v)
    }

    /// Forgets the memoised main-search values (they depend on the draw rule in force).
    pub fn clear_v(&mut self) {
        self.vmemo.clear();
    }

    pub fn v(&mut self, p: &Pos, d: u8) -> Result<i32, Abort> {
        self.v_rec(p, d, 0)
    }

    fn v_rec(&mut self, p: &Pos, d: u8, ply: u32) -> Result<i32, Abort> {
        if ply > 0 && (!self.draw_first_ply_only || ply == 1) {
            if let Some(dr) = &self.draw_positions {
                if dr.contains(p) {
                    return Ok(0);
                }
            }
            if let Some(dk) = &self.draw_keys {
                for (r, ep_eff) in dk {
                    if r.sq == p.sq && r.stm == p.stm && r.castle == p.castle && p.repetition_key().3 == *ep_eff {
                        return Ok(0);
                    }
                }
            }
        }
        if d == 0 {
            return self.q(p);
        }
        if !self.draw_first_ply_only {
            if let Some(v) = self.vmemo.get(&(p.clone(), d)) {
                return Ok(*v);
            }
        }
        self.nodes += 1;
        if self.nodes > self.cap {
            return Err(Abort::NodeCap);
        }
        let legal = p.legal_moves();
        let v = if legal.is_empty() {
            if p.in_check() {
                LOST
            } else {
                0
            }
        } else {
            let mut best = LOST;
            for m in legal {
                let c = p.make(m);
                let v = neg(self.v_rec(&c, d - 1, ply + 1)?);
                if v > best {
                    best = v;
                }
            }
            best
        };
        // with a draw rule below every ply the value is still a function of (position, depth) for a
        // fixed history; callers clear the memo (clear_v) whenever they change the rule
        if !self.draw_first_ply_only {
            self.vmemo.insert((p.clone(), d), v);
        }
        Ok(v)
    }

    /// Value of playing `m` at `p` with `d` plies in total.
    pub fn move_value(&mut self, p: &Pos, m: Mv, d: u8) -> Result<i32, Abort> {
        let c = p.make(m);
        Ok(neg(self.v_rec(&c, d - 1, 1)?))
    }
}
