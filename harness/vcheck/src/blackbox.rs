//! Black-box driver (filled in later).
