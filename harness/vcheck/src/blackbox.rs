//! Black-box driver: spawns the real binary, feeds it a command script over a pipe, reads stdout.

use serde_json::{json, Value};
use std::io::{BufRead, BufReader, Write};
use std::process::{Child, ChildStdin, Command, Stdio};
use std::sync::mpsc::{channel, Receiver, RecvTimeoutError};
use std::time::{Duration, Instant};

pub fn engine_path() -> Option<String> {
    let p = std::env::var("FLOUNDER_BIN").unwrap_or_else(|_| format!("{}/work/engine/release/flounder", crate::verif_dir()));
    if std::path::Path::new(&p).exists() {
        Some(p)
    } else {
        None
    }
}

pub struct Proc {
    pub child: Child,
    pub stdin: Option<ChildStdin>,
    pub rx: Receiver<Option<String>>,
    pub transcript: Vec<String>,
    pub eof: bool,
}

#[derive(Debug)]
pub enum Wait {
    Line(String),
    Eof,
    Timeout,
    /// no output and no CPU time consumed for several seconds: the process is not working on an
    /// answer, it is waiting for input — whatever has not been answered never will be
    Idle,
}

impl Proc {
    pub fn spawn() -> Result<Proc, String> {
        let path = engine_path().ok_or("engine binary not built")?;
        let mut child = Command::new(path).stdin(Stdio::piped()).stdout(Stdio::piped()).stderr(Stdio::null()).spawn().map_err(|e| e.to_string())?;
        let stdin = child.stdin.take();
        let stdout = child.stdout.take().unwrap();
        let (tx, rx) = channel();
        std::thread::spawn(move || {
            let r = BufReader::new(stdout);
            for line in r.lines() {
                match line {
                    Ok(l) => {
                        if tx.send(Some(l)).is_err() {
                            return;
                        }
                    }
                    Err(_) => break,
                }
            }
            let _ = tx.send(None);
        });
        Ok(Proc { child, stdin, rx, transcript: Vec::new(), eof: false })
    }

    pub fn send(&mut self, line: &str) -> bool {
        if let Some(si) = self.stdin.as_mut() {
            si.write_all(line.as_bytes()).is_ok() && si.write_all(b"\n").is_ok() && si.flush().is_ok()
        } else {
            false
        }
    }

    pub fn send_raw(&mut self, bytes: &[u8]) -> bool {
        if let Some(si) = self.stdin.as_mut() {
            si.write_all(bytes).is_ok() && si.flush().is_ok()
        } else {
            false
        }
    }

    pub fn close_stdin(&mut self) {
        self.stdin = None;
    }

    pub fn next_line(&mut self, timeout: Duration) -> Wait {
        if self.eof {
            return Wait::Eof;
        }
        match self.rx.recv_timeout(timeout) {
            Ok(Some(l)) => {
                self.transcript.push(l.clone());
                Wait::Line(l)
            }
            Ok(None) => {
                self.eof = true;
                Wait::Eof
            }
            Err(RecvTimeoutError::Timeout) => Wait::Timeout,
            Err(RecvTimeoutError::Disconnected) => {
                self.eof = true;
                Wait::Eof
            }
        }
    }

    /// Reads lines until one equals `marker` (returned lines exclude the marker).
    pub fn read_until(&mut self, marker: &str, timeout: Duration) -> Result<Vec<String>, Wait> {
        let deadline = Instant::now() + timeout;
        let mut v = Vec::new();
        loop {
            let left = deadline.saturating_duration_since(Instant::now());
            if left.is_zero() {
                return Err(Wait::Timeout);
            }
            match self.next_line(left) {
                Wait::Line(l) => {
                    if l.trim_end() == marker {
                        return Ok(v);
                    }
                    v.push(l);
                }
                other => return Err(other),
            }
        }
    }

    /// Like `read_until`, but gives up as soon as the process has been idle (no output, CPU time
    /// not increasing) for `idle` — an idle engine is not still searching.
    pub fn read_until_or_idle(&mut self, marker: &str, timeout: Duration, idle: Duration) -> Result<Vec<String>, Wait> {
        let deadline = Instant::now() + timeout;
        let mut v = Vec::new();
        let mut last_ticks = self.cpu_ticks();
        let mut idle_since = Instant::now();
        loop {
            let left = deadline.saturating_duration_since(Instant::now());
            if left.is_zero() {
                return Err(Wait::Timeout);
            }
            match self.next_line(left.min(Duration::from_millis(250))) {
                Wait::Line(l) => {
                    idle_since = Instant::now();
                    if l.trim_end() == marker {
                        return Ok(v);
                    }
                    v.push(l);
                }
                Wait::Timeout => {
                    let t = self.cpu_ticks();
                    if t != last_ticks {
                        last_ticks = t;
                        idle_since = Instant::now();
                    } else if idle_since.elapsed() >= idle {
                        return Err(Wait::Idle);
                    }
                }
                other => return Err(other),
            }
        }
    }

    /// Waits for the process to exit; returns its exit code (None: still alive after `timeout`).
    pub fn wait_exit(&mut self, timeout: Duration) -> Option<i32> {
        let deadline = Instant::now() + timeout;
        loop {
            match self.child.try_wait() {
                Ok(Some(st)) => {
                    use std::os::unix::process::ExitStatusExt;
                    return Some(st.code().unwrap_or_else(|| 128 + st.signal().unwrap_or(0)));
                }
                Ok(None) => {
                    if Instant::now() >= deadline {
                        return None;
                    }
                    std::thread::sleep(Duration::from_millis(5));
                }
                Err(_) => return None,
            }
        }
    }

    /// user+system CPU time of the child so far, in clock ticks (from /proc/<pid>/stat)
    pub fn cpu_ticks(&self) -> Option<u64> {
        let s = std::fs::read_to_string(format!("/proc/{}/stat", self.child.id())).ok()?;
        let after = s.rsplit_once(')')?.1;
        let f: Vec<&str> = after.split_whitespace().collect();
        let ut: u64 = f.get(11)?.parse().ok()?;
        let st: u64 = f.get(12)?.parse().ok()?;
        Some(ut + st)
    }

    pub fn kill(&mut self) {
        let _ = self.child.kill();
        let _ = self.child.wait();
    }
}

impl Drop for Proc {
    fn drop(&mut self) {
        self.kill();
    }
}

/// Strips the `time <n>` and `nps <n>` fields of an info line (C13 normalisation).
pub fn normalise(line: &str) -> String {
    let toks: Vec<&str> = line.split_whitespace().collect();
    let mut out: Vec<&str> = Vec::new();
    let mut i = 0;
    let is_info = toks.first() == Some(&"info");
    while i < toks.len() {
        if is_info && (toks[i] == "time" || toks[i] == "nps") && i + 1 < toks.len() {
            i += 2;
            continue;
        }
        out.push(toks[i]);
        i += 1;
    }
    out.join(" ")
}

/// Informational only: wall-clock time from `go movetime T` to `bestmove` on the real binary.
pub fn movetime_timings() -> Option<Value> {
    engine_path()?;
    let mut rows = Vec::new();
    let fens = [
        "rnbqkbnr/pppppppp/8/8/8/8/PPPPPPPP/RNBQKBNR w KQkq - 0 1",
        "r3k2r/p1ppqpb1/bn2pnp1/3PN3/1p2P3/2N2Q1p/PPPBBPPP/R3K2R w KQkq - 0 1",
        "k7/PPPPPPPP/8/8/8/8/pppppppp/K7 w - - 0 1",
        "3q1q2/1PPPPPP1/k7/8/8/7K/1pppppp1/3Q1Q2 w - - 0 1",
    ];
    for fen in fens {
        for ms in [10u64, 50, 200] {
            let mut p = Proc::spawn().ok()?;
            p.send(&format!("position fen {}", fen));
            p.send("isready");
            p.read_until("readyok", Duration::from_secs(10)).ok()?;
            let t0 = Instant::now();
            p.send(&format!("go movetime {}", ms));
            let mut took = None;
            let deadline = Instant::now() + Duration::from_secs(20);
            while Instant::now() < deadline {
                match p.next_line(Duration::from_secs(20)) {
                    Wait::Line(l) if l.starts_with("bestmove") => {
                        took = Some(t0.elapsed().as_millis() as u64);
                        break;
                    }
                    Wait::Line(_) => {}
                    _ => break,
                }
            }
            p.send("quit");
            rows.push(json!({"fen": fen, "movetime_ms": ms, "answered_after_ms": took}));
        }
    }
    Some(json!(rows))
}
