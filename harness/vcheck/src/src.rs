//! Byte source: every generator in the harness is a decoder `bytes -> case`.
//! The bytes come from proptest (`vec(any::<u8>(), ..)`, so proptest shrinks them) or from
//! libFuzzer, so a libFuzzer artefact and a proptest failure are the same kind of object.
//! Exhausted input yields zeros, and all index choices are monotone in the byte value, so a
//! "smaller" byte string decodes to a "simpler" case.

pub struct Src<'a> {
    data: &'a [u8],
    pos: usize,
}

impl<'a> Src<'a> {
    pub fn new(data: &'a [u8]) -> Self {
        Src { data, pos: 0 }
    }
    pub fn used(&self) -> usize {
        self.pos
    }
    pub fn exhausted(&self) -> bool {
        self.pos >= self.data.len()
    }
    pub fn u8(&mut self) -> u8 {
        let v = self.data.get(self.pos).copied().unwrap_or(0);
        self.pos += 1;
        v
    }
    pub fn u16(&mut self) -> u16 {
        let a = self.u8() as u16;
        let b = self.u8() as u16;
        (a << 8) | b
    }
    pub fn u32(&mut self) -> u32 {
        ((self.u16() as u32) << 16) | self.u16() as u32
    }
    pub fn u64(&mut self) -> u64 {
        ((self.u32() as u64) << 32) | self.u32() as u64
    }
    /// Monotone map of one (n <= 256) or two bytes onto 0..n.
    pub fn below(&mut self, n: usize) -> usize {
        if n <= 1 {
            return 0;
        }
        if n <= 256 {
            (self.u8() as usize * n) >> 8
        } else if n <= 65536 {
            (self.u16() as usize * n) >> 16
        } else {
            ((self.u32() as u64 * n as u64) >> 32) as usize
        }
    }
    /// Inclusive range.
    pub fn range(&mut self, lo: i64, hi: i64) -> i64 {
        if hi <= lo {
            return lo;
        }
        lo + self.below((hi - lo + 1) as usize) as i64
    }
    pub fn bool(&mut self) -> bool {
        self.u8() >= 128
    }
    /// true with probability pct/100
    pub fn chance(&mut self, pct: usize) -> bool {
        self.below(100) < pct
    }
    /// Index chosen with the given weights (monotone: low bytes pick early entries).
    pub fn weighted(&mut self, weights: &[usize]) -> usize {
        let total: usize = weights.iter().sum();
        if total == 0 {
            return 0;
        }
        let mut r = self.below(total);
        for (i, w) in weights.iter().enumerate() {
            if r < *w {
                return i;
            }
            r -= *w;
        }
        weights.len() - 1
    }
    pub fn pick<'b, T>(&mut self, items: &'b [T]) -> &'b T {
        &items[self.below(items.len())]
    }
}
