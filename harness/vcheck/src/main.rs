fn main() {
    vcheck::main_entry();
}
