//! Position and game generators.  All are decoders on `Src` (construction, not rejection).

use crate::src::Src;
use refchess::{file_of, rank_of, sq_of, Color, Kind, Mv, Pos};

pub const STARTPOS: &str = "rnbqkbnr/pppppppp/8/8/8/8/PPPPPPPP/RNBQKBNR w KQkq - 0 1";

/// Pool of start positions: the start array, the six perft positions, FENs of the repo's own
/// tests, and hand-made positions rich in castling / en passant / promotion / pins.
pub const POOL: &[&str] = &[
    STARTPOS,
    "r3k2r/p1ppqpb1/bn2pnp1/3PN3/1p2P3/2N2Q1p/PPPBBPPP/R3K2R w KQkq - 0 1",
    "8/2p5/3p4/KP5r/1R3p1k/8/4P1P1/8 w - - 0 1",
    "r3k2r/Pppp1ppp/1b3nbN/nP6/BBP1P3/q4N2/Pp1P2PP/R2Q1RK1 w kq - 0 1",
    "rnbq1k1r/pp1Pbppp/2p5/8/2B5/8/PPP1NnPP/RNBQK2R w KQ - 1 8",
    "r4rk1/1pp1qppp/p1np1n2/2b1p1B1/2B1P1b1/P1NP1N2/1PP1QPPP/R4RK1 w - - 0 10",
    // repo test FENs
    "r3k3/p1R2Qp1/2pq4/4p3/2P4P/3BP3/P4P1P/5bK1 b q - 0 1",
    "4k3/5p2/8/6B1/8/8/8/3R2K1 w - - 0 1",
    "rn1r2k1/ppp2ppp/3q1n2/4b1B1/4P1b1/1BP1Q3/PP3PPP/RN2K1NR b KQ - 0 1",
    "6k1/6P1/5K1R/8/8/8/8/8 w - - 0 1",
    "rn3rk1/p5pp/2p5/3Ppb2/2q5/1Q6/PPPB2PP/R3K1NR b KQ - 0 1",
    "1k2r3/pP3pp1/8/3P1B1p/5q2/N1P2b2/PP3Pp1/R5K1 b - - 0 1",
    "2r1nrk1/p4p1p/1p2p1pQ/nPqbRN2/8/P2B4/1BP2PPP/3R2K1 w - - 0 1",
    "1r6/pk6/4Q3/3P4/8/8/8/6K1 w - - 0 1",
    "r1b1q1r1/ppp3kp/1bnp4/4p1B1/3PP3/2P2Q2/PP3PPP/RN3RK1 w - - 0 1",
    "6k1/1p1b3p/2pp2p1/p7/2Pb2Pq/1P1PpK2/P1N3RP/1RQ5 b - - 0 1",
    "rR6/5k2/2p3q1/4Qpb1/2PB1Pb1/4P3/r5R1/6K1 w - - 0 1",
    "8/8/1Q6/8/6pk/5q2/8/6K1 w - - 0 1",
    "3r1r2/4k3/R7/3Q4/8/8/8/6K1 w - - 0 1",
    "8/8/2P5/3K1k2/2R3p1/2q5/8/8 b - - 0 1",
    "3rkr2/8/5Q2/8/8/8/8/6K1 w - - 0 1",
    "1k1r4/pp1q1B1p/3bQp2/2p2r2/P6P/2BnP3/1P6/5RKR b - - 0 1",
    "5r2/pp3k2/5r2/q1p2Q2/3P4/6R1/PPP2PP1/1K6 w - - 0 1",
    "8/7R/1pkp4/2p5/1PP5/8/8/6K1 w - - 0 1",
    "r1b3nr/ppp3qp/1bnpk3/4p1BQ/3PP3/2P5/PP3PPP/RN3RK1 w - - 0 11",
    "rnbqkb1r/p1pp1ppp/1p3n2/4N3/4P3/8/PPPP1PPP/RNBQKB1R w KQkq - 0 4",
    // hand-made: castling
    "r3k2r/8/8/8/8/8/8/R3K2R w KQkq - 0 1",
    "r3k2r/8/8/8/8/8/8/R3K2R b KQkq - 0 1",
    "r3k2r/pppppppp/8/8/8/8/PPPPPPPP/R3K2R w KQkq - 0 1",
    "r3k2r/1P4P1/8/8/8/8/1p4p1/R3K2R w KQkq - 0 1",
    "r3k2r/1P4P1/8/8/8/8/1p4p1/R3K2R b KQkq - 0 1",
    "4k2r/8/8/8/8/8/8/R3K3 w Qk - 0 1",
    "r3k3/8/8/8/8/8/8/4K2R b Kq - 0 1",
    "r3k2r/8/8/4b3/4B3/8/8/R3K2R w KQkq - 0 1",
    "r3k2r/8/8/5N2/5n2/8/8/R3K2R w KQkq - 0 1",
    "1r2k2r/8/8/8/8/8/8/R3K1R1 w Qk - 0 1",
    // hand-made: en passant
    "4k3/8/8/8/1p1p1p1p/8/P1P1P1P1/4K3 w - - 0 1",
    "4k3/p1p1p1p1/8/1P1P1P1P/8/8/8/4K3 b - - 0 1",
    "8/8/8/K2pP2r/8/8/8/4k3 w - d6 0 1",
    "8/8/8/8/k2Pp2R/8/8/4K3 b - d3 0 1",
    "4k3/8/8/2pP4/8/8/8/B3K3 w - c6 0 1",
    "8/8/4k3/8/2pPp3/8/8/2R1K1B1 b - d3 0 1",
    "8/2p5/8/KP5r/5pPk/8/4P3/8 b - g3 0 1",
    "rnbqkbnr/ppp1p1pp/8/3pPp2/8/8/PPPP1PPP/RNBQKBNR w KQkq f6 0 3",
    "7k/8/8/1pP5/8/8/6B1/K7 w - b6 0 1",
    // hand-made: promotions
    "r3k2r/1P4P1/8/8/8/8/8/4K3 w kq - 0 1",
    "4k3/8/8/8/8/8/1p4p1/R3K2R b KQ - 0 1",
    "n1n5/PPPk4/8/8/8/8/4Kppp/5N1N b - - 0 1",
    "n1n5/PPPk4/8/8/8/8/4Kppp/5N1N w - - 0 1",
    "8/PPPPPPPP/8/2k5/8/8/pppppppp/4K3 w - - 0 1",
    "1rr1k3/P7/8/8/8/8/8/4K3 w - - 0 1",
    // hand-made: pins and checks
    "4k3/8/8/8/1b6/2N5/3P4/4K3 w - - 0 1",
    "4r1k1/8/8/8/8/8/4R3/4K3 w - - 0 1",
    "4k3/8/8/b7/8/2P5/3K4/8 w - - 0 1",
    "8/8/8/8/5k2/8/r3PK2/8 w - - 0 1",
    "k7/8/8/8/8/8/6r1/r6K w - - 0 1",
    "4k3/8/8/8/8/4n3/8/r3K3 w - - 0 1",
    "4k3/8/8/8/7q/8/5n2/4K3 w - - 0 1",
    "3k4/8/8/8/8/8/3r4/R2K3r w - - 0 1",
    "8/8/8/3k4/8/8/3R4/3K4 b - - 0 1",
    // sparse endgames
    "8/8/8/4k3/8/8/4P3/4K3 w - - 0 1",
    "8/5k2/8/8/8/8/1Q6/K7 w - - 0 1",
    "8/8/8/8/8/2k5/1r6/K7 w - - 0 1",
    "7k/5Q2/6K1/8/8/8/8/8 b - - 0 1",
    "k7/2Q5/1K6/8/8/8/8/8 b - - 0 1",
    "8/8/8/8/8/8/8/K1k5 w - - 0 1",
    "8/8/4k3/8/2N5/8/8/4K3 w - - 0 1",
    "8/8/4k3/8/3B4/8/8/4K3 b - - 0 1",
    "8/3k4/8/8/8/2R5/8/K3r3 w - - 0 1",
];

/// Every pool entry must itself be a valid position (checked at start-up; exit 2 otherwise).
pub fn validate_pool() -> Result<(), String> {
    for f in POOL {
        let p = Pos::from_fen(f).map_err(|e| format!("pool FEN {}: {}", f, e))?.0;
        p.validity().map_err(|e| format!("pool FEN {} invalid: {}", f, e))?;
    }
    Ok(())
}

pub fn pool_pos(i: usize) -> Pos {
    Pos::from_fen(POOL[i % POOL.len()]).unwrap().0
}

/// Weight of a move in playouts: rare kinds are boosted so that long games actually exercise
/// the rights / ep / promotion bookkeeping.
pub fn move_weight(p: &Pos, m: Mv) -> usize {
    let i = p.info(m);
    let (_, k) = p.sq[m.from as usize].unwrap();
    let mut w = 2usize;
    if i.castle {
        w *= 8;
    }
    if i.ep {
        w *= 8;
    }
    if i.promo {
        w *= 3;
        if i.capture {
            w *= 2;
        }
    }
    if i.capture && matches!(m.to, 0 | 7 | 56 | 63) {
        w *= 4;
    }
    if i.double_push {
        w *= 2;
    }
    if (k == Kind::K || k == Kind::R) && (p.castle.iter().any(|c| *c)) {
        w *= 2;
    }
    w
}

/// Chooses one legal move (weighted).  `None` if there is none.
pub fn choose_move(s: &mut Src, p: &Pos, legal: &[Mv]) -> Option<Mv> {
    if legal.is_empty() {
        return None;
    }
    let ws: Vec<usize> = legal.iter().map(|m| move_weight(p, *m)).collect();
    Some(legal[s.weighted(&ws)])
}

/// Reference-legal playout of at most `plies` moves from `start`.
/// Returns the list of (position before move, move) and the final position.
pub fn playout(s: &mut Src, start: &Pos, plies: usize) -> (Vec<(Pos, Mv)>, Pos) {
    let mut v = Vec::new();
    let mut p = start.clone();
    for _ in 0..plies {
        let legal = p.legal_moves();
        let Some(m) = choose_move(s, &p, &legal) else { break };
        let n = p.make(m);
        v.push((p, m));
        p = n;
        // bare kings: nothing more to learn
        if p.men() <= 2 {
            break;
        }
    }
    (v, p)
}

/// Skewed ply count: mostly short, sometimes long (up to `max`).
pub fn ply_count(s: &mut Src, max: usize) -> usize {
    match s.below(8) {
        0 => 0,
        1 | 2 => s.below(8.min(max + 1)),
        3 | 4 => s.below(30.min(max + 1)),
        5 | 6 => s.below(100.min(max + 1)),
        _ => s.below(max + 1),
    }
}

pub fn g_play(s: &mut Src) -> Pos {
    let start = pool_pos(s.below(POOL.len()));
    let n = ply_count(s, 300);
    playout(s, &start, n).1
}

fn random_kind(s: &mut Src, allow_pawn: bool) -> Kind {
    // weighted bag
    let ks = [Kind::P, Kind::P, Kind::P, Kind::N, Kind::B, Kind::R, Kind::Q, Kind::N, Kind::B, Kind::R];
    loop {
        let k = *s.pick(&ks);
        if k != Kind::P || allow_pawn {
            return k;
        }
        if s.exhausted() {
            return Kind::N;
        }
    }
}

fn kings_adjacent(a: u8, b: u8) -> bool {
    (file_of(a) - file_of(b)).abs() <= 1 && (rank_of(a) - rank_of(b)).abs() <= 1
}

/// Removes men (never kings) attacking the king of the side not to move until the position is
/// valid in that respect; also drops inconsistent castling flags and an unjustifiable ep square.
pub fn repair(p: &mut Pos) {
    // try swapping the side to move first
    if p.opponent_in_check() && !p.in_check() {
        p.stm = p.stm.other();
        p.ep = None;
    }
    let mut guard = 0;
    while p.opponent_in_check() && guard < 40 {
        guard += 1;
        let k = p.king_sq(p.stm.other()).unwrap();
        let att = p.attackers(k, p.stm);
        let mut removed = false;
        for a in att {
            if p.sq[a as usize].map(|m| m.1) != Some(Kind::K) {
                p.sq[a as usize] = None;
                removed = true;
                break;
            }
        }
        if !removed {
            break;
        }
    }
    let ok = |p: &Pos, ks: usize, rs: usize, c: Color| p.sq[ks] == Some((c, Kind::K)) && p.sq[rs] == Some((c, Kind::R));
    if !ok(p, 4, 7, Color::W) {
        p.castle[0] = false;
    }
    if !ok(p, 4, 0, Color::W) {
        p.castle[1] = false;
    }
    if !ok(p, 60, 63, Color::B) {
        p.castle[2] = false;
    }
    if !ok(p, 60, 56, Color::B) {
        p.castle[3] = false;
    }
    if p.ep.is_some() && p.validity().is_err() {
        p.ep = None;
    }
}

/// All ep squares that would be consistent with the placement.
pub fn ep_candidates(p: &Pos) -> Vec<u8> {
    let mut v = Vec::new();
    let them = p.stm.other();
    let (ep_rank, _pawn_rank, _origin_rank) = if them == Color::W { (2, 3, 1) } else { (5, 4, 6) };
    for f in 0..8 {
        let e = sq_of(f, ep_rank).unwrap();
        let mut q = p.clone();
        q.ep = Some(e);
        if q.validity().is_ok() {
            v.push(e);
        }
    }
    v
}

/// Arbitrary valid placement with `k` further men; castling/ep chosen among consistent options.
pub fn g_place(s: &mut Src, max_men: usize) -> Pos {
    let mut p = Pos::empty();
    p.stm = if s.bool() { Color::B } else { Color::W };
    // kings; with some probability on their home squares with rooks (castling material)
    let home = s.below(4); // 0: neither, 1: white home, 2: black home, 3: both
    let wk = if home & 1 != 0 { 4 } else { s.below(64) as u8 };
    let mut bk = if home & 2 != 0 { 60 } else { s.below(64) as u8 };
    let mut guard = 0;
    while (bk == wk || kings_adjacent(wk, bk)) && guard < 64 {
        bk = ((bk as usize + 9 + guard) % 64) as u8;
        guard += 1;
    }
    if bk == wk || kings_adjacent(wk, bk) {
        bk = if wk < 32 { 60 } else { 4 };
    }
    p.sq[wk as usize] = Some((Color::W, Kind::K));
    p.sq[bk as usize] = Some((Color::B, Kind::K));
    if wk == 4 {
        if s.chance(70) && p.sq[7].is_none() {
            p.sq[7] = Some((Color::W, Kind::R));
        }
        if s.chance(70) && p.sq[0].is_none() {
            p.sq[0] = Some((Color::W, Kind::R));
        }
    }
    if bk == 60 {
        if s.chance(70) && p.sq[63].is_none() {
            p.sq[63] = Some((Color::B, Kind::R));
        }
        if s.chance(70) && p.sq[56].is_none() {
            p.sq[56] = Some((Color::B, Kind::R));
        }
    }
    let k = s.below(max_men + 1);
    for _ in 0..k {
        let sq = s.below(64) as u8;
        if p.sq[sq as usize].is_some() {
            continue;
        }
        let r = rank_of(sq);
        let kind = random_kind(s, r != 0 && r != 7);
        let c = if s.bool() { Color::B } else { Color::W };
        p.sq[sq as usize] = Some((c, kind));
    }
    // ep set-up: with some probability build a double-pushed pawn with a neighbour
    if s.chance(35) {
        let them = p.stm.other();
        let (ep_rank, pawn_rank, origin_rank) = if them == Color::W { (2, 3, 1) } else { (5, 4, 6) };
        let f = s.below(8) as i32;
        let pawn = sq_of(f, pawn_rank).unwrap() as usize;
        let e = sq_of(f, ep_rank).unwrap() as usize;
        let o = sq_of(f, origin_rank).unwrap() as usize;
        let free = |m: Option<(Color, Kind)>| m.map(|x| x.1 != Kind::K).unwrap_or(true);
        if free(p.sq[pawn]) && free(p.sq[e]) && free(p.sq[o]) {
            p.sq[pawn] = Some((them, Kind::P));
            p.sq[e] = None;
            p.sq[o] = None;
            // neighbours
            for df in [-1, 1] {
                if s.chance(60) {
                    if let Some(n) = sq_of(f + df, pawn_rank) {
                        if free(p.sq[n as usize]) {
                            p.sq[n as usize] = Some((p.stm, Kind::P));
                        }
                    }
                }
            }
        }
    }
    // castling flags: random subset (repair drops the inconsistent ones)
    for i in 0..4 {
        p.castle[i] = s.chance(75);
    }
    repair(&mut p);
    // ep: choose among all consistent candidates (including ones nobody can capture)
    let cands = ep_candidates(&p);
    if !cands.is_empty() && s.chance(70) {
        // prefer candidates with an adjacent capturer
        let with_cap: Vec<u8> = cands
            .iter()
            .copied()
            .filter(|e| {
                let mut q = p.clone();
                q.ep = Some(*e);
                q.ep_has_adjacent_capturer()
            })
            .collect();
        let e = if !with_cap.is_empty() && s.chance(80) { *s.pick(&with_cap) } else { *s.pick(&cands) };
        p.ep = Some(e);
    }
    debug_assert!(p.is_valid());
    p
}

fn put(p: &mut Pos, f: i32, r: i32, m: (Color, Kind)) -> bool {
    match sq_of(f, r) {
        Some(s) if p.sq[s as usize].is_none() => {
            p.sq[s as usize] = Some(m);
            true
        }
        _ => false,
    }
}

/// Pads a motif position with random men, keeping it valid.
fn pad(s: &mut Src, p: &mut Pos, max: usize) {
    let n = s.below(max + 1);
    for _ in 0..n {
        let sq = s.below(64) as u8;
        if p.sq[sq as usize].is_some() {
            continue;
        }
        let r = rank_of(sq);
        let kind = random_kind(s, r != 0 && r != 7);
        let c = if s.bool() { Color::B } else { Color::W };
        p.sq[sq as usize] = Some((c, kind));
        if p.opponent_in_check() {
            p.sq[sq as usize] = None;
        }
    }
}

const DIRS8: [(i32, i32); 8] = [(1, 0), (1, 1), (0, 1), (-1, 1), (-1, 0), (-1, -1), (0, -1), (1, -1)];

fn finish(s: &mut Src, mut p: Pos, padn: usize) -> Pos {
    // make sure both kings exist
    if p.king_sq(Color::W).is_none() || p.king_sq(Color::B).is_none() {
        for c in [Color::W, Color::B] {
            if p.king_sq(c).is_none() {
                let other = p.king_sq(c.other());
                for i in 0..64u8 {
                    let sq = ((s.below(64) + i as usize) % 64) as u8;
                    if p.sq[sq as usize].is_none() && other.map(|o| !kings_adjacent(o, sq)).unwrap_or(true) {
                        p.sq[sq as usize] = Some((c, Kind::K));
                        break;
                    }
                }
            }
        }
    }
    pad(s, &mut p, padn);
    repair(&mut p);
    if !p.is_valid() {
        // last resort: something simple and valid
        return pool_pos(s.below(POOL.len()));
    }
    p
}

pub const MOTIFS: usize = 12;

/// Directly constructed shapes that a uniform generator almost never hits.
pub fn g_motif(s: &mut Src) -> Pos {
    let which = s.below(MOTIFS);
    g_motif_n(s, which)
}

pub fn g_motif_n(s: &mut Src, which: usize) -> Pos {
    let us = if s.bool() { Color::B } else { Color::W };
    let them = us.other();
    let mut p = Pos::empty();
    p.stm = us;
    match which {
        0 => {
            // absolute pin on one of the 8 directions
            let kf = s.below(8) as i32;
            let kr = s.below(8) as i32;
            put(&mut p, kf, kr, (us, Kind::K));
            let (df, dr) = DIRS8[s.below(8)];
            let d1 = 1 + s.below(3) as i32;
            let d2 = d1 + 1 + s.below(3) as i32;
            let diag = df != 0 && dr != 0;
            let pinned = *s.pick(&[Kind::P, Kind::N, Kind::B, Kind::R, Kind::Q]);
            let pr = kr + dr * d1;
            let pinned = if pinned == Kind::P && (pr <= 0 || pr >= 7) { Kind::N } else { pinned };
            put(&mut p, kf + df * d1, pr, (us, pinned));
            let slider = if s.chance(30) { Kind::Q } else if diag { Kind::B } else { Kind::R };
            put(&mut p, kf + df * d2, kr + dr * d2, (them, slider));
            finish(s, p, 8)
        }
        1 => {
            // double check: knight + slider
            let kf = s.below(8) as i32;
            let kr = s.below(8) as i32;
            put(&mut p, kf, kr, (us, Kind::K));
            let kd = [(1, 2), (2, 1), (2, -1), (1, -2), (-1, -2), (-2, -1), (-2, 1), (-1, 2)];
            let (nf, nr) = kd[s.below(8)];
            put(&mut p, kf + nf, kr + nr, (them, Kind::N));
            let (df, dr) = DIRS8[s.below(8)];
            let d = 1 + s.below(4) as i32;
            let diag = df != 0 && dr != 0;
            let slider = if s.chance(30) { Kind::Q } else if diag { Kind::B } else { Kind::R };
            put(&mut p, kf + df * d, kr + dr * d, (them, slider));
            // defenders that could (wrongly) capture or block
            put(&mut p, s.below(8) as i32, s.below(8) as i32, (us, Kind::Q));
            put(&mut p, s.below(8) as i32, s.below(8) as i32, (us, Kind::N));
            finish(s, p, 6)
        }
        2 => {
            // check by knight or pawn (cannot be blocked) with would-be blockers around
            let kf = s.below(8) as i32;
            let kr = 1 + s.below(6) as i32;
            put(&mut p, kf, kr, (us, Kind::K));
            if s.bool() {
                let kd = [(1, 2), (2, 1), (2, -1), (1, -2), (-1, -2), (-2, -1), (-2, 1), (-1, 2)];
                let (nf, nr) = kd[s.below(8)];
                put(&mut p, kf + nf, kr + nr, (them, Kind::N));
            } else {
                let pr = if us == Color::W { kr + 1 } else { kr - 1 };
                let df = if s.bool() { 1 } else { -1 };
                if pr > 0 && pr < 7 {
                    put(&mut p, kf + df, pr, (them, Kind::P));
                }
            }
            put(&mut p, s.below(8) as i32, s.below(8) as i32, (us, Kind::R));
            put(&mut p, s.below(8) as i32, s.below(8) as i32, (us, Kind::B));
            finish(s, p, 8)
        }
        3 => {
            // slider check along a ray with the "shadow" square behind the king empty
            let kf = 1 + s.below(6) as i32;
            let kr = 1 + s.below(6) as i32;
            put(&mut p, kf, kr, (us, Kind::K));
            let (df, dr) = DIRS8[s.below(8)];
            let d = 1 + s.below(5) as i32;
            let diag = df != 0 && dr != 0;
            let slider = if s.chance(30) { Kind::Q } else if diag { Kind::B } else { Kind::R };
            put(&mut p, kf + df * d, kr + dr * d, (them, slider));
            put(&mut p, s.below(8) as i32, s.below(8) as i32, (us, Kind::R));
            put(&mut p, s.below(8) as i32, s.below(8) as i32, (us, Kind::N));
            finish(s, p, 5)
        }
        4 => {
            // castling with one chosen square attacked or occupied
            let hr = if us == Color::W { 0 } else { 7 };
            put(&mut p, 4, hr, (us, Kind::K));
            put(&mut p, 7, hr, (us, Kind::R));
            put(&mut p, 0, hr, (us, Kind::R));
            let (ki, qi) = if us == Color::W { (0, 1) } else { (2, 3) };
            p.castle[ki] = s.chance(90);
            p.castle[qi] = s.chance(90);
            // opponent may also have castling material
            if s.bool() {
                let or = 7 - hr;
                put(&mut p, 4, or, (them, Kind::K));
                put(&mut p, 7, or, (them, Kind::R));
                put(&mut p, 0, or, (them, Kind::R));
                let (oki, oqi) = if them == Color::W { (0, 1) } else { (2, 3) };
                p.castle[oki] = s.bool();
                p.castle[oqi] = s.bool();
            }
            let target_file = 1 + s.below(6) as i32; // b..g
            match s.below(4) {
                0 => {
                    // occupied by own or enemy minor (not on e-file)
                    if target_file != 4 {
                        let c = if s.bool() { us } else { them };
                        put(&mut p, target_file, hr, (c, Kind::N));
                    }
                }
                1 => {
                    // attacked along the file by a rook/queen
                    let dist = 2 + s.below(5) as i32;
                    let r = if hr == 0 { dist } else { 7 - dist };
                    put(&mut p, target_file, r, (them, if s.bool() { Kind::R } else { Kind::Q }));
                }
                2 => {
                    // attacked by a knight
                    let r = if hr == 0 { 2 } else { 5 };
                    let df = if s.bool() { 1 } else { -1 };
                    put(&mut p, target_file + df, r, (them, Kind::N));
                }
                _ => {
                    // attacked on a diagonal by a bishop, or by a pawn
                    if s.bool() {
                        let d = 1 + s.below(5) as i32;
                        let df = if s.bool() { d } else { -d };
                        let r = if hr == 0 { d } else { 7 - d };
                        put(&mut p, target_file + df, r, (them, Kind::B));
                    } else {
                        let r = if hr == 0 { 1 } else { 6 };
                        let df = if s.bool() { 1 } else { -1 };
                        put(&mut p, target_file + df, r, (them, Kind::P));
                    }
                }
            }
            finish(s, p, 6)
        }
        5 => {
            // en-passant pins: horizontal (K . P p . . r on the fifth rank), diagonal variants
            let fifth = if us == Color::W { 4 } else { 3 };
            let ep_rank = if us == Color::W { 5 } else { 2 };
            let f = 1 + s.below(6) as i32; // victim file
            let side = if s.bool() { 1 } else { -1 }; // capturer on f+side
            put(&mut p, f, fifth, (them, Kind::P));
            put(&mut p, f + side, fifth, (us, Kind::P));
            p.ep = sq_of(f, ep_rank);
            match s.below(4) {
                0 => {
                    // horizontal: king on one end, rook/queen on the other
                    let lo = f.min(f + side);
                    let hi = f.max(f + side);
                    let kf = s.below((lo.max(1)) as usize) as i32; // 0..lo-1
                    let rf = hi + 1 + s.below((7 - hi).max(1) as usize) as i32;
                    let (kf, rf) = if s.bool() { (kf, rf) } else { (rf.min(7), kf) };
                    put(&mut p, kf, fifth, (us, Kind::K));
                    put(&mut p, rf.min(7), fifth, (them, if s.bool() { Kind::R } else { Kind::Q }));
                }
                1 => {
                    // capturer pinned diagonally along / against the capture direction
                    let (df, dr) = *s.pick(&[(1, 1), (-1, 1), (1, -1), (-1, -1)]);
                    let cf = f + side;
                    let d1 = 1 + s.below(3) as i32;
                    let d2 = 1 + s.below(3) as i32;
                    put(&mut p, cf - df * d1, fifth - dr * d1, (us, Kind::K));
                    put(&mut p, cf + df * d2, fifth + dr * d2, (them, Kind::B));
                }
                2 => {
                    // capturer pinned on the file
                    let cf = f + side;
                    let up = if s.bool() { 1 } else { -1 };
                    put(&mut p, cf, fifth - up * (1 + s.below(3) as i32), (us, Kind::K));
                    put(&mut p, cf, fifth + up * (1 + s.below(3) as i32), (them, Kind::R));
                }
                _ => {
                    // the double push gave check (pawn checks king) — ep capture removes the checker
                    let kr = if us == Color::W { fifth - 1 } else { fifth + 1 };
                    put(&mut p, f - side, kr, (us, Kind::K));
                }
            }
            let q = finish(s, p, 5);
            q
        }
        6 => {
            // pawns one step from promotion, capture choices onto corner rooks that carry rights
            let seventh = if us == Color::W { 6 } else { 1 };
            let eighth = if us == Color::W { 7 } else { 0 };
            put(&mut p, 4, eighth, (them, Kind::K));
            put(&mut p, 0, eighth, (them, Kind::R));
            put(&mut p, 7, eighth, (them, Kind::R));
            let (oki, oqi) = if them == Color::W { (0, 1) } else { (2, 3) };
            p.castle[oki] = s.chance(85);
            p.castle[oqi] = s.chance(85);
            for f in [1, 6] {
                if s.chance(80) {
                    put(&mut p, f, seventh, (us, Kind::P));
                }
            }
            let n = s.below(3);
            for _ in 0..n {
                put(&mut p, s.below(8) as i32, seventh, (us, Kind::P));
            }
            if s.bool() {
                put(&mut p, s.below(8) as i32, eighth, (them, Kind::N));
            }
            let hr = 7 - eighth;
            put(&mut p, 4, hr, (us, Kind::K));
            finish(s, p, 5)
        }
        7 => {
            // mate / stalemate neighbourhoods: take a curated mate-ish position and perturb it
            let base = [
                "7k/5Q2/6K1/8/8/8/8/8 b - - 0 1",
                "k7/2Q5/1K6/8/8/8/8/8 b - - 0 1",
                "6k1/5ppp/8/8/8/8/8/R3K3 w Q - 0 1",
                "6rk/6pp/8/6N1/8/8/8/K7 w - - 0 1",
                "k7/8/1K6/8/8/8/8/7R w - - 0 1",
                "5rk1/5ppp/8/8/8/8/1Q6/K6R w - - 0 1",
                "r5k1/5ppp/8/8/8/8/5PPP/6K1 b - - 0 1",
                "3k4/3P4/3K4/8/8/8/8/8 b - - 0 1",
                "8/8/8/8/8/5k2/5p2/5K2 w - - 0 1",
                "R6k/6pp/8/8/8/8/8/K7 b - - 0 1",
            ];
            let mut q = Pos::from_fen(base[s.below(base.len())]).unwrap().0;
            if s.bool() {
                q = q.mirror();
            }
            finish(s, q, 3)
        }
        8 => {
            // explosive quiescence: rows of pawns one step from promotion, many queens
            let n_w = s.below(9);
            let n_b = s.below(9);
            for f in 0..n_w {
                put(&mut p, f as i32, 6, (Color::W, Kind::P));
            }
            for f in 0..n_b {
                put(&mut p, 7 - f as i32, 1, (Color::B, Kind::P));
            }
            let nq = s.below(5);
            for _ in 0..nq {
                let c = if s.bool() { Color::W } else { Color::B };
                put(&mut p, s.below(8) as i32, 2 + s.below(4) as i32, (c, Kind::Q));
            }
            finish(s, p, 6)
        }
        9 => {
            // discovered-check material: own slider, own blocker, enemy king on one line
            let kf = s.below(8) as i32;
            let kr = s.below(8) as i32;
            put(&mut p, kf, kr, (them, Kind::K));
            let (df, dr) = DIRS8[s.below(8)];
            let d1 = 1 + s.below(3) as i32;
            let d2 = d1 + 1 + s.below(3) as i32;
            let diag = df != 0 && dr != 0;
            let br = kr + dr * d1;
            let blocker = *s.pick(&[Kind::P, Kind::N, Kind::B, Kind::R, Kind::K]);
            let blocker = if blocker == Kind::P && (br <= 0 || br >= 7) { Kind::N } else { blocker };
            let blocker = if blocker == Kind::B && diag { Kind::N } else if blocker == Kind::R && !diag { Kind::N } else { blocker };
            put(&mut p, kf + df * d1, br, (us, blocker));
            let slider = if s.chance(30) { Kind::Q } else if diag { Kind::B } else { Kind::R };
            put(&mut p, kf + df * d2, kr + dr * d2, (us, slider));
            finish(s, p, 6)
        }
        10 => {
            // ep / castling / promotion discoveries: two men leave a line by ep
            let fifth = if us == Color::W { 4 } else { 3 };
            let ep_rank = if us == Color::W { 5 } else { 2 };
            let f = 1 + s.below(6) as i32;
            let side = if s.bool() { 1 } else { -1 };
            put(&mut p, f, fifth, (them, Kind::P));
            put(&mut p, f + side, fifth, (us, Kind::P));
            p.ep = sq_of(f, ep_rank);
            // enemy king on the fifth rank with our rook behind the two pawns → ep gives discovered check
            let lo = f.min(f + side);
            let hi = f.max(f + side);
            if s.bool() {
                put(&mut p, (lo - 1 - s.below(2) as i32).max(0), fifth, (them, Kind::K));
                put(&mut p, (hi + 1 + s.below(2) as i32).min(7), fifth, (us, Kind::R));
            } else {
                put(&mut p, (hi + 1 + s.below(2) as i32).min(7), fifth, (them, Kind::K));
                put(&mut p, (lo - 1 - s.below(2) as i32).max(0), fifth, (us, Kind::R));
            }
            finish(s, p, 4)
        }
        _ => {
            // castling gives check: enemy king on the f/d file, rook arrives there
            let hr = if us == Color::W { 0 } else { 7 };
            put(&mut p, 4, hr, (us, Kind::K));
            put(&mut p, 7, hr, (us, Kind::R));
            put(&mut p, 0, hr, (us, Kind::R));
            let (ki, qi) = if us == Color::W { (0, 1) } else { (2, 3) };
            p.castle[ki] = true;
            p.castle[qi] = true;
            let kfile = if s.bool() { 5 } else { 3 };
            let dist = 2 + s.below(5) as i32;
            let r = if hr == 0 { dist } else { 7 - dist };
            put(&mut p, kfile, r, (them, Kind::K));
            finish(s, p, 4)
        }
    }
}

/// The general mixture (40 % play, 35 % place, 25 % motif).
pub fn g_mix(s: &mut Src) -> (Pos, &'static str) {
    match s.weighted(&[40, 35, 25]) {
        0 => (g_play(s), "play"),
        1 => (g_place(s, 30), "place"),
        _ => (g_motif(s), "motif"),
    }
}

/// Endings in which a pawn is about to promote next to the kings: the family where the choice of
/// the promotion piece matters (a queen stalemates, a rook or knight wins or mates) and where
/// promotions, captures of the promoted piece and stalemates sit one or two plies from the root.
pub fn g_promotion_ending(s: &mut Src) -> Pos {
    for _ in 0..8 {
        let mut p = Pos::empty();
        let white = s.bool();
        let (us, them) = if white { (Color::W, Color::B) } else { (Color::B, Color::W) };
        let pf = s.below(8) as i32;
        let pr = if white { 6 } else { 1 };
        put(&mut p, pf, pr, (us, Kind::P));
        // enemy king within two files of the promotion square, on its first or second rank
        let kf = (pf + s.range(-2, 2) as i32).clamp(0, 7);
        let kr = if white { 7 - s.below(2) as i32 } else { s.below(2) as i32 };
        if !put(&mut p, kf, kr, (them, Kind::K)) {
            continue;
        }
        // our king close by
        let of = (pf + s.range(-2, 2) as i32).clamp(0, 7);
        let or = if white { 4 + s.below(3) as i32 } else { 3 - s.below(3) as i32 };
        if !put(&mut p, of, or, (us, Kind::K)) {
            continue;
        }
        p.stm = if s.chance(75) { us } else { them };
        let padn = s.below(3);
        pad(s, &mut p, padn);
        repair(&mut p);
        if p.is_valid() {
            return p;
        }
    }
    g_place(s, 3)
}

/// Small positions for search properties (bounded quiescence trees).
pub fn g_small(s: &mut Src) -> (Pos, &'static str) {
    match s.weighted(&[42, 28, 14, 9, 7]) {
        4 => (g_promotion_ending(s), "promotion-ending"),
        0 => {
            let n = 1 + s.below(6);
            (g_place(s, n), "endgame<=8")
        }
        1 => {
            let start = pool_pos(s.below(POOL.len()));
            let n = 20 + ply_count(s, 200);
            let (_, p) = playout(s, &start, n);
            (p, "play")
        }
        2 => {
            let n = 6 + s.below(10);
            (g_place(s, n), "place<=18")
        }
        _ => (g_motif(s), "motif"),
    }
}

/// Labels used for the class histogram.
pub fn labels(p: &Pos) -> Vec<&'static str> {
    let mut v = Vec::new();
    let legal = p.legal_moves();
    let chk = p.in_check();
    if chk {
        v.push("in_check");
        let k = p.king_sq(p.stm).unwrap();
        if p.attackers(k, p.stm.other()).len() >= 2 {
            v.push("double_check");
        }
        if legal.is_empty() {
            v.push("mate");
        }
    } else if legal.is_empty() {
        v.push("stalemate");
    }
    if p.ep.is_some() {
        v.push("ep_present");
        if legal.iter().any(|m| p.info(*m).ep) {
            v.push("ep_legal");
        } else if p.pseudo_moves().iter().any(|m| p.info(*m).ep) {
            v.push("ep_illegal_pseudo");
        }
    }
    let (ki, qi) = if p.stm == Color::W { (0, 1) } else { (2, 3) };
    if p.castle[ki] || p.castle[qi] {
        v.push("castle_right");
        if legal.iter().any(|m| p.info(*m).castle) {
            v.push("castle_legal");
        }
    }
    if legal.iter().any(|m| m.promo.is_some()) {
        v.push("promotion");
    }
    if pinned_count(p) > 0 {
        v.push("pinned");
    }
    v
}

/// Number of men of the side to move that are absolutely pinned (moving them off the line
/// would expose the king): computed by definition — remove the man, see whether a new attacker appears.
pub fn pinned_count(p: &Pos) -> usize {
    let us = p.stm;
    let Some(k) = p.king_sq(us) else { return 0 };
    let base = p.attackers(k, us.other()).len();
    let mut n = 0;
    for s in 0..64u8 {
        if let Some((c, kind)) = p.sq[s as usize] {
            if c == us && kind != Kind::K {
                let mut q = p.clone();
                q.sq[s as usize] = None;
                if q.attackers(k, us.other()).len() > base {
                    n += 1;
                }
            }
        }
    }
    n
}

pub fn pawn_on_seventh(p: &Pos) -> bool {
    let r = if p.stm == Color::W { 6 } else { 1 };
    (0..8).any(|f| p.sq[sq_of(f, r).unwrap() as usize] == Some((p.stm, Kind::P)))
}

/// Move counters a real game can show for position `p`: fullmove number >= 1, halfmove clock at
/// most the number of plies played (2*(fullmove-1), +1 when Black is to move), at most 150, and 0
/// right after a double pawn push (ep square present).  `full_wish`/`half_wish` are generated
/// values; the clock is clamped into the reachable range, and sits exactly ON the bound often.
pub fn reachable_counters(s: &mut Src, p: &Pos, half_wish: u32, full_wish: u32) -> (u32, u32) {
    let full = full_wish.max(1);
    let plies = 2 * (full - 1) + if p.stm == Color::B { 1 } else { 0 };
    let bound = plies.min(150);
    let half = if p.ep.is_some() {
        0
    } else {
        match s.below(4) {
            0 => bound,
            1 => bound.saturating_sub(1),
            _ => half_wish.min(bound),
        }
    };
    (half, full)
}

/// A very long game from the start position (up to `plies` plies) in which no position occurs
/// twice and the fifty-move clock never passes 140: captures are avoided while material lasts (the
/// game must go on), a pawn move or capture is preferred when the clock gets high, and a move that
/// would bring an earlier position about again is avoided when another exists.  Returns the moves,
/// the final position and the number of distinct positions (start included).
pub fn long_game(s: &mut Src, plies: usize) -> (Vec<Mv>, Pos, usize) {
    let mut p = Pos::startpos();
    let mut seen: std::collections::HashSet<Pos> = std::collections::HashSet::new();
    seen.insert(p.clone());
    let mut moves = Vec::new();
    let mut clock = 0u32;
    for _ in 0..plies {
        let legal = p.legal_moves();
        if legal.is_empty() {
            break;
        }
        let ws: Vec<usize> = legal
            .iter()
            .map(|m| {
                let i = p.info(*m);
                let pawn = p.sq[m.from as usize].map(|x| x.1) == Some(Kind::P);
                let resets = i.capture || pawn;
                let mut w = if i.capture { 1 } else { 12 };
                if clock > 110 {
                    w = if resets { 400 } else { 1 };
                } else if pawn {
                    w = 2;
                }
                if p.men() <= 10 && i.capture {
                    w = 0;
                }
                if seen.contains(&p.make(*m)) {
                    w = 0;
                }
                w
            })
            .collect();
        let m = if ws.iter().all(|w| *w == 0) { legal[s.below(legal.len())] } else { legal[s.weighted(&ws)] };
        let i = p.info(m);
        let pawn = p.sq[m.from as usize].map(|x| x.1) == Some(Kind::P);
        clock = if i.capture || pawn { 0 } else { clock + 1 };
        p = p.make(m);
        moves.push(m);
        seen.insert(p.clone());
        if clock > 140 {
            break;
        }
    }
    let n = seen.len();
    (moves, p, n)
}
