//! Command-script generator for the process-level properties (C03, C13, C16).
//! Every production is valid input unless the property asks for unknown lines.

use crate::eng;
use crate::gen;
use crate::props::c04::gen_position_cmd;
use crate::src::Src;
use flsrc::search::Searcher;
use refchess::Pos;

#[derive(Clone, Debug, PartialEq)]
pub enum Line {
    Uci,
    IsReady,
    NewGame,
    Position { text: String, result: Pos, history: Vec<Pos> },
    Go { text: String },
    Unknown(String),
    Blank(String),
    Quit,
}

impl Line {
    pub fn text(&self) -> String {
        match self {
            Line::Uci => "uci".into(),
            Line::IsReady => "isready".into(),
            Line::NewGame => "ucinewgame".into(),
            Line::Position { text, .. } => text.clone(),
            Line::Go { text } => text.clone(),
            Line::Unknown(t) => t.clone(),
            Line::Blank(t) => t.clone(),
            Line::Quit => "quit".into(),
        }
    }
}

const COMMAND_WORDS: [&str; 6] = ["uci", "isready", "ucinewgame", "position", "go", "quit"];

/// Lines of the UCI vocabulary that this engine does not implement (GUI-to-engine commands other
/// than the six it handles, with their arguments as the protocol text gives them, and
/// engine-to-GUI lines a confused peer might echo).  Every token-prefix of each is also an
/// unknown line ("debug", "setoption name", ...).
const UCI_VOCABULARY: [&str; 22] = [
    "debug on",
    "debug off",
    "setoption name Hash value 128",
    "setoption name Nullmove value true",
    "setoption name Clear Hash",
    "setoption name NalimovPath value c:\\chess\\tb\\4;c:\\chess\\tb\\5",
    "register later",
    "register name Stefan MK code 4359874324",
    "stop",
    "ponderhit",
    "id name Shredder X.Y",
    "id author Stefan MK",
    "uciok",
    "readyok",
    "bestmove g1f3 ponder d8f6",
    "copyprotection ok",
    "registration checking",
    "info depth 12 nodes 123456 nps 100000",
    "info currmove e2e4 currmovenumber 1",
    "option name Hash type spin default 1 min 1 max 128",
    "option name Style type combo default Normal var Solid var Normal var Risky",
    "info string debug stop ponderhit",
];

/// Private-use character that announces one raw byte (two hex digits follow) in a script line.
pub const RAW_BYTE_MARK: char = '\u{e000}';

/// The bytes of a script line as they go to the engine: RAW_BYTE_MARK + two hex digits become that byte.
pub fn raw_bytes(line: &str) -> Vec<u8> {
    let mut out = Vec::new();
    let cs: Vec<char> = line.chars().collect();
    let mut i = 0;
    while i < cs.len() {
        if cs[i] == RAW_BYTE_MARK && i + 2 < cs.len() {
            let h: String = cs[i + 1..i + 3].iter().collect();
            if let Ok(b) = u8::from_str_radix(&h, 16) {
                out.push(b);
                i += 3;
                continue;
            }
        }
        let mut buf = [0u8; 4];
        out.extend_from_slice(cs[i].encode_utf8(&mut buf).as_bytes());
        i += 1;
    }
    out
}

pub fn gen_unknown(s: &mut Src) -> String {
    let fixed = [
        "xboard",
        "d",
        "eval",
        "help",
        "bench 16 1 13",
        "ucii",
        "isreadyy",
        "Uci",
        "QUIT",
        "go!",
        "pösition stärtpos",
        "♞ f3",
        "日本語 コマンド",
        "perft 3",
        "flip",
        "--version",
        "debug maybe",
        "setoption value",
    ];
    let t = match s.weighted(&[45, 25, 30, 9, 3]) {
        4 => {
            // a very long line (up to ~70 000 characters): nothing bounds the length of a line
            if s.chance(45) {
                // ONE long token that has a command word glued into it right at (or next to) a
                // power-of-two offset: as a token it is no command (so no engine may answer it),
                // but a reader that cuts lines into blocks of 4 KiB .. 64 KiB would see the word
                // at the start of a block
                let at = *s.pick(&[4_096usize, 8_192, 16_384, 32_768, 65_536, 65_536, 65_536]) + *s.pick(&[0usize, 0, 0, 1]) - *s.pick(&[0usize, 0, 1]);
                let word = *s.pick(&["isready", "uci", "quit", "go depth 1", "isready", "ucinewgame"]);
                let fill = ["x", "q", "7"][s.below(3)];
                let mut t = fill.repeat(at);
                t.push_str(word);
                if s.bool() {
                    t.push_str(" tail");
                }
                // the glued word never stands alone as a token
                return t;
            }
            let n = *s.pick(&[300usize, 1_000, 4_100, 8_200, 16_400, 33_000, 66_000, 70_000]);
            let word = ["x", "abc", "e2e4", "zzzzzzzz"][s.below(4)];
            let mut t = String::with_capacity(n + 16);
            while t.len() < n {
                t.push_str(word);
                if s.below(3) == 0 || t.len() % 97 == 0 {
                    t.push(' ');
                }
            }
            t
        }
        3 => {
            // words containing bytes that are not valid UTF-8 (written as RAW_BYTE_MARK + two hex
            // digits; `raw_bytes` turns them into the bytes themselves on the way to the engine)
            let n = 1 + s.below(3);
            let mut words = Vec::new();
            for _ in 0..n {
                let len = 1 + s.below(6);
                let mut w = String::new();
                for _ in 0..len {
                    if s.chance(45) {
                        let b = *s.pick(&[0x80u8, 0xbf, 0xc0, 0xc3, 0xe2, 0xf0, 0xf8, 0xfe, 0xff, 0x9c]);
                        w.push(RAW_BYTE_MARK);
                        w.push_str(&format!("{:02x}", b));
                    } else {
                        w.push((b'a' + s.below(26) as u8) as char);
                    }
                }
                words.push(w);
            }
            let mut t = words.join(" ");
            if !t.contains(RAW_BYTE_MARK) {
                t.push(RAW_BYTE_MARK);
                t.push_str("ff");
            }
            t
        }
        0 => {
            // a vocabulary line, possibly truncated to a token-prefix
            let line = UCI_VOCABULARY[s.below(UCI_VOCABULARY.len())];
            let toks: Vec<&str> = line.split(' ').collect();
            let keep = if s.chance(50) { toks.len() } else { 1 + s.below(toks.len()) };
            toks[..keep].join(" ")
        }
        1 => fixed[s.below(fixed.len())].to_string(),
        _ => {
            // random printable words
            let n = 1 + s.below(4);
            let mut words = Vec::new();
            for _ in 0..n {
                let len = 1 + s.below(8);
                let w: String = (0..len).map(|_| (b'!' + s.below(94) as u8) as char).collect();
                words.push(w);
            }
            words.join(" ")
        }
    };
    if t.split_whitespace().any(|w| COMMAND_WORDS.contains(&w)) || t.trim().is_empty() {
        return "stop".into();
    }
    // leading / trailing white space is allowed by the protocol
    match s.below(8) {
        0 => format!(" {}", t),
        1 => format!("{} ", t),
        2 => format!("\t{}\t", t),
        _ => t,
    }
}

pub fn gen_blank(s: &mut Src) -> String {
    match s.below(4) {
        0 => "".into(),
        1 => " ".into(),
        2 => "\t".into(),
        _ => "  \t ".into(),
    }
}

/// Is a depth-limited search of `p` cheap on a fresh engine?  (in-process pre-screen under a node cap)
pub fn cheap_search(p: &Pos, depth: u8, cap: u64) -> bool {
    let b = eng::to_board(p);
    let mut s = Searcher::new();
    s.verif_set_hard_cap(Some(cap));
    std::panic::catch_unwind(std::panic::AssertUnwindSafe(|| s.find_best_move(&b, depth, None))).is_ok()
}

/// A position command whose result can be searched cheaply to `depth`.
pub fn gen_cheap_position(s: &mut Src, depth: u8, cap: u64, max_plies: usize) -> Line {
    for _ in 0..4 {
        let c = gen_position_cmd(s, max_plies, true);
        if cheap_search(&c.expected, depth, cap) {
            return Line::Position { text: c.text, result: c.expected, history: c.history };
        }
    }
    let p = Pos::from_fen("8/8/8/4k3/8/8/4P3/4K3 w - - 0 1").unwrap().0;
    Line::Position { text: "position fen 8/8/8/4k3/8/8/4P3/4K3 w - - 0 1".into(), result: p.clone(), history: vec![p] }
}

pub fn sep(s: &mut Src) -> &'static str {
    match s.below(12) {
        0 => "  ",
        1 => "\t",
        _ => " ",
    }
}

pub fn position_of(lines: &[Line]) -> Pos {
    // the position last set (ucinewgame resets to the start position)
    let mut p = Pos::startpos();
    for l in lines {
        match l {
            Line::Position { result, .. } => p = result.clone(),
            Line::NewGame => p = Pos::startpos(),
            _ => {}
        }
    }
    p
}

pub fn any_small(s: &mut Src) -> Pos {
    gen::g_small(s).0
}

/// Reference-side reading of a position command (valid commands only: `position startpos|fen <6
/// fields> [moves ...]`, arbitrary white space).  Returns the game: all positions from the start to
/// the final one.  Used by the structural replays, which re-run a saved case from its text.
pub fn ref_position(text: &str) -> Result<Vec<Pos>, String> {
    let t: Vec<&str> = text.split_whitespace().collect();
    if t.first() != Some(&"position") {
        return Err(format!("not a position command: {}", text));
    }
    let (mut p, rest) = match t.get(1) {
        Some(&"startpos") => (Pos::startpos(), &t[2..]),
        Some(&"fen") if t.len() >= 8 => (Pos::from_fen(&t[2..8].join(" ")).map_err(|e| e.to_string())?.0, &t[8..]),
        _ => return Err(format!("malformed position command: {}", text)),
    };
    let mut game = vec![p.clone()];
    if let Some(&"moves") = rest.first() {
        for m in &rest[1..] {
            let mv = p.find_uci(m).ok_or_else(|| format!("move {} is not legal in {}", m, p.fen4()))?;
            p = p.make(mv);
            game.push(p.clone());
        }
    }
    Ok(game)
}

/// The position a process holds after the given command lines (only position and ucinewgame
/// lines change it).
pub fn ref_current(lines: &[String]) -> Result<Pos, String> {
    let mut p = Pos::startpos();
    for l in lines {
        let first = l.split_whitespace().next().unwrap_or("");
        if first == "position" {
            p = ref_position(l)?.pop().unwrap();
        } else if first == "ucinewgame" {
            p = Pos::startpos();
        }
    }
    Ok(p)
}
