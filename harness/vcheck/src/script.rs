//! Command-script generator for the process-level properties (C03, C13, C16).
//! Every production is valid input unless the property asks for unknown lines.

use crate::eng;
use crate::gen;
use crate::props::c04::gen_position_cmd;
use crate::src::Src;
use flsrc::search::Searcher;
use refchess::Pos;

#[derive(Clone, Debug, PartialEq)]
pub enum Line {
    Uci,
    IsReady,
    NewGame,
    Position { text: String, result: Pos, history: Vec<Pos> },
    Go { text: String },
    Unknown(String),
    Blank(String),
    Quit,
}

impl Line {
    pub fn text(&self) -> String {
        match self {
            Line::Uci => "uci".into(),
            Line::IsReady => "isready".into(),
            Line::NewGame => "ucinewgame".into(),
            Line::Position { text, .. } => text.clone(),
            Line::Go { text } => text.clone(),
            Line::Unknown(t) => t.clone(),
            Line::Blank(t) => t.clone(),
            Line::Quit => "quit".into(),
        }
    }
}

const COMMAND_WORDS: [&str; 6] = ["uci", "isready", "ucinewgame", "position", "go", "quit"];

pub fn gen_unknown(s: &mut Src) -> String {
    let fixed = [
        "stop",
        "debug on",
        "debug off",
        "setoption name Hash value 16",
        "setoption name Threads value 4",
        "ponderhit",
        "register later",
        "xboard",
        "d",
        "eval",
        "help",
        "bench 16 1 13",
        "ucii",
        "isreadyy",
        "Uci",
        "QUIT",
        "go!",
        "pösition stärtpos",
        "♞ f3",
        "日本語 コマンド",
        "perft 3",
        "flip",
        "--version",
        "setoption name UCI_Chess960 value false",
    ];
    if s.chance(70) {
        return fixed[s.below(fixed.len())].to_string();
    }
    // random printable words
    let n = 1 + s.below(4);
    let mut words = Vec::new();
    for _ in 0..n {
        let len = 1 + s.below(8);
        let w: String = (0..len).map(|_| (b'!' + s.below(94) as u8) as char).collect();
        words.push(w);
    }
    let t = words.join(" ");
    if t.split_whitespace().any(|w| COMMAND_WORDS.contains(&w)) {
        return "stop".into();
    }
    t
}

pub fn gen_blank(s: &mut Src) -> String {
    match s.below(4) {
        0 => "".into(),
        1 => " ".into(),
        2 => "\t".into(),
        _ => "  \t ".into(),
    }
}

/// Is a depth-limited search of `p` cheap on a fresh engine?  (in-process pre-screen under a node cap)
pub fn cheap_search(p: &Pos, depth: u8, cap: u64) -> bool {
    let b = eng::to_board(p);
    let mut s = Searcher::new();
    s.verif_set_hard_cap(Some(cap));
    std::panic::catch_unwind(std::panic::AssertUnwindSafe(|| s.find_best_move(&b, depth, None))).is_ok()
}

/// A position command whose result can be searched cheaply to `depth`.
pub fn gen_cheap_position(s: &mut Src, depth: u8, cap: u64, max_plies: usize) -> Line {
    for _ in 0..4 {
        let c = gen_position_cmd(s, max_plies, true);
        if cheap_search(&c.expected, depth, cap) {
            return Line::Position { text: c.text, result: c.expected, history: c.history };
        }
    }
    let p = Pos::from_fen("8/8/8/4k3/8/8/4P3/4K3 w - - 0 1").unwrap().0;
    Line::Position { text: "position fen 8/8/8/4k3/8/8/4P3/4K3 w - - 0 1".into(), result: p.clone(), history: vec![p] }
}

pub fn sep(s: &mut Src) -> &'static str {
    match s.below(12) {
        0 => "  ",
        1 => "\t",
        _ => " ",
    }
}

pub fn position_of(lines: &[Line]) -> Pos {
    // the position last set (ucinewgame resets to the start position)
    let mut p = Pos::startpos();
    for l in lines {
        match l {
            Line::Position { result, .. } => p = result.clone(),
            Line::NewGame => p = Pos::startpos(),
            _ => {}
        }
    }
    p
}

pub fn any_small(s: &mut Src) -> Pos {
    gen::g_small(s).0
}
