//! Flounder's own sources, compiled in place from /repo/src (see build.rs).
#![allow(dead_code, unused_imports, clippy::all)]
include!(concat!(env!("OUT_DIR"), "/mods.rs"));
