// Compiles Flounder's sources *in place*: writes one `#[path] pub mod` line per
// module of /repo/src (or $FLOUNDER_SRC) so that every check rebuilds from the
// repository's current working tree.  The guard cfg is switched on here so that
// no RUSTFLAGS setting (cargo-fuzz sets its own) can drop it.
use std::{env, fs, path::PathBuf};

fn main() {
    let src = env::var("FLOUNDER_SRC").unwrap_or_else(|_| "/repo/src".to_string());
    println!("cargo:rerun-if-env-changed=FLOUNDER_SRC");
    println!("cargo:rerun-if-changed={}", src);
    println!("cargo:rustc-cfg=flounder_verif");
    println!("cargo:rustc-check-cfg=cfg(flounder_verif)");
    let mut mods: Vec<String> = fs::read_dir(&src)
        .expect("cannot read Flounder source directory")
        .filter_map(|e| e.ok())
        .filter_map(|e| {
            let p = e.path();
            if p.extension().map(|x| x == "rs").unwrap_or(false) {
                p.file_stem().map(|s| s.to_string_lossy().to_string())
            } else {
                None
            }
        })
        .filter(|m| m != "main")
        .collect();
    mods.sort();
    let mut out = String::new();
    for m in &mods {
        println!("cargo:rerun-if-changed={}/{}.rs", src, m);
        out.push_str(&format!("#[path = \"{}/{}.rs\"]\npub mod {};\n", src, m, m));
    }
    let dest = PathBuf::from(env::var("OUT_DIR").unwrap()).join("mods.rs");
    fs::write(dest, out).unwrap();
}
